"""C14 -- Hierarchical names are unique and evaluate back to their objects.  (DESIGN.md section 4, C14)"""
import ast

from sa.astutil import norm, walk_no_nested, qualname, parent
from sa.c14_util import (SymExec, PathExplosion, State, Cond, subst, pretty, same, lin_eq, tokens, tok_keys, Tok, Step,
                         access_path, TemplateError)
from sa.errors import AnalysisError
from sa.minieval import Evaluator
from sa.report import RuleResult

PID = 'C14'
NAMED = 'pymtl3/dsl/NamedObject.py'
CONN = 'pymtl3/dsl/Connectable.py'
COMP = 'pymtl3/dsl/Component.py'
L1 = 'pymtl3/dsl/ComponentLevel1.py'

EXPLANATION = (
    "Static analysis (ast + a path-sensitive symbolic executor over single functions; nothing is imported or run). "
    "Every function of pymtl3 that assigns `_dsl.full_name` is found by scanning and each of its structured paths is "
    "executed symbolically. R-C14-name-storage: the assigned text is evaluated in a string-template domain, its holes "
    "are replaced by placeholders and the result is parsed as a Python expression rooted at the container: the access "
    "path obtained (.attr / [i] for every index in order / [lo:hi]) must be the storage operation the same path performs "
    "(setattr / __dict__[key] / position of the element in the nested list by the BFS invariant or the index walk / "
    "slice key in the non-sliced parent's __dict__), the prefix must be the full name of the object that stores it, "
    "objects created from decorated methods are stored under their class-namespace key; "
    "slice bounds in the name must be the cache key and the absolute bounds (identity on a non-sliced signal, offset by "
    "the outer slice start and cached in the parent otherwise). R-C14-cache: lazily created field / slice signals are "
    "created only under `key not in container.__dict__`, stored under and returned from that very key. R-C14-meta: "
    "parent_obj, my_name, _my_name, _my_indices, level, top_level_signal, slice are consistent with the same container / "
    "accessor. R-C14-reassign: a second hardware object under an existing field name raises on both arms; a list slot "
    "is filled only when empty. R-C14-siblings: attribute arm, list arm and Component._add_component assign the same "
    "metadata fields. R-C14-api: __repr__/get_parent_object/get_field_name/get_host_component/top-level-signal accessors "
    "return the metadata just checked; the root is named by a constant identifier and prefix-stripping consumers agree "
    "with its length. R-C14-collect: the object collectors traverse exactly the storage kinds the naming sites use, "
    "with the same private-name filter, and the hook's list arm is entered for every list the collectors descend into "
    "(fires today: the arm looks at obj[0] only -- known finding D18); the local collector recurses through lists to any "
    "depth. R-C14-query: the top-level naming stores are dominated by the not-yet-constructed test (names are written "
    "once), no query of NamedObject/Component* compares a prefix/suffix/substring/slice of a name, and no hierarchy query "
    "keeps a memo on _dsl that _add_component/_delete_component do not invalidate; host-relative names (lambda blocks in "
    "ComponentLevel3._create_assign_lambda, net blocks in GenDAGPass, every function of pymtl3/dsl) are cut from a full "
    "name at the front by the host name's length, never by replace/strip/split. R-C14-collect also requires that descent "
    "does not depend on the filter verdict and that BFS / worklist loops are not left early. R-C14-register: every "
    "function that installs the setattr hook outside elaboration (add_value_port, _add_component) adds the attached object "
    "/ its collected subtree to <top>._dsl.all_named_objects; elaboration drivers collect the registry after constructing. R-C02-cache-scope (dependency): block "
    "metadata is re-parsed / cached per defining class, so re-elaboration yields the same names. Decides: name <-> storage slot bijection (hence uniqueness and eval(repr(o)) is o) "
    "and metadata consistency for every hierarchy shape. Not decided: user construct code that stores one object under "
    "two names or uses non-identifier attribute names; determinism of user construct code.")
ASSUMPTIONS = [
    "Python attribute lookup finds instance __dict__ entries before __getattr__ is consulted; a dict / list slot holds one object",
    "str() of a non-negative int parses back to the same int; attribute names passed to setattr are identifiers",
    "attribute reads of `_dsl` metadata are stable within one invocation of a naming function unless stored there",
    "BFS argument: with a FIFO queue, children pushed consecutively in enumerate order are popped in that order, so "
    "one append per pop puts child i at position i",
    "Signal.__getattr__'s non-bitstruct arm is unreachable (supporting check: Signal.__init__ asserts Bits-or-bitstruct "
    "and the arm is only reached with a type instance present)",
]

POPS = {'popleft', 'pop'}
PUSHES = {'append', 'extend', 'appendleft', 'extendleft'}


def _floor(r, n, repo=None):
    """exact instance count of the reference tree; the floor guards against vacuous PASSES, so a result that already
    carries findings is reported as such rather than replaced by an analysis error"""
    if r.findings or (repo is not None and _cache(repo).get('broken')):
        # a naming site is broken (reported by R-C14-name-storage): rules that skip it count fewer instances
        r.floor = n
    else:
        r.require_floor(n)


class Verdict(Exception):
    """a definite defect found while resolving (message)"""


# ---------------------------------------------------------------------------
# site discovery and symbolic execution (cached on the Repo object itself: the self-test analyses many
# overlay repos in one process, so nothing may be keyed by id())
def _cache(obj):
    c = obj.__dict__.get('_c14_cache')
    if c is None:
        c = obj.__dict__['_c14_cache'] = {}
    return c


def _functions(tree):
    for n in ast.walk(tree):
        if isinstance(n, (ast.FunctionDef, ast.AsyncFunctionDef)):
            yield n


def _is_dsl(func, e):
    """e is `<x>._dsl` or a local alias of such an expression"""
    if isinstance(e, ast.Attribute) and e.attr == '_dsl':
        return True
    if isinstance(e, ast.Name):
        for n in walk_no_nested(func):
            if isinstance(n, ast.Assign) and isinstance(n.value, ast.Attribute) and n.value.attr == '_dsl' \
                    and any(isinstance(t, ast.Name) and t.id == e.id for t in n.targets):
                return True
    return False


def _own_stores(func, attr):
    """statements of func (nested defs excluded) that store `<x>._dsl.<attr>` (directly or through an alias of _dsl)"""
    out = []
    for n in walk_no_nested(func):
        if isinstance(n, ast.Assign):
            for t in n.targets:
                for x in ([t] if not isinstance(t, (ast.Tuple, ast.List)) else t.elts):
                    if isinstance(x, ast.Attribute) and x.attr == attr and _is_dsl(func, x.value) and n not in out:
                        out.append(n)
        elif isinstance(n, (ast.AugAssign, ast.AnnAssign)) and isinstance(n.target, ast.Attribute) \
                and n.target.attr == attr and _is_dsl(func, n.target.value):
            out.append(n)
    return out


class FuncAnalysis:
    def __init__(self, mod, func, focus):
        self.mod, self.func = mod, func
        self.qual = qualname(func)
        self.me = func.args.args[0].arg if func.args.args else None
        try:
            self.ex = SymExec(func, max_paths=1500)
            self.paths = self.ex.run()
            self.mode = 'full'
        except PathExplosion:
            self.paths = None
        if self.paths is None and focus:
            # stop after the last top-level statement that contains a focus statement
            tops = [i for i, s in enumerate(func.body) if any(f is n for n in ast.walk(s) for f in focus)]
            if tops:
                try:
                    self.ex = SymExec(func, max_paths=1500)
                    self.paths = self.ex.run(until=func.body[max(tops)])
                    self.mode = 'until'
                except PathExplosion:
                    self.paths = None
        if self.paths is None:
            self.ex = SymExec(func, max_paths=1500, focus=focus)
            self.paths = self.ex.run()
            self.mode = 'focus'

    def d(self, e):
        return self.ex.def_of(e)


def analyse(repo, rel, qual, focus=None):
    c = _cache(repo)
    key = (rel, qual)
    if key not in c:
        m = repo.mod(rel)
        c[key] = FuncAnalysis(m, m.get_func(qual), focus or [])
    return c[key]


def naming_sites(repo):
    """every function of pymtl3 (tests excluded) that stores an attribute called `full_name`"""
    c = _cache(repo)
    if 'sites' in c:
        return c['sites']
    out = []
    for rel in repo.py_files('pymtl3'):
        if 'full_name' not in repo.src(rel):
            continue
        m = repo.mod(rel)
        for f in _functions(m.tree):
            sts = _own_stores(f, 'full_name')
            if sts:
                fa = analyse(repo, rel, qualname(f), focus=sts)
                out.append((fa, sts))
    c['sites'] = out
    return out


# ---------------------------------------------------------------------------
# a naming event on a path
class Naming:
    def __init__(self, fa, path, ev):
        self.fa, self.path, self.ev = fa, path, ev
        o = ev.obj
        if not (isinstance(o, ast.Attribute) and o.attr == '_dsl'):
            raise AnalysisError(f"{fa.qual}: full_name stored on something that is not `<obj>._dsl`: {pretty(o)}")
        self.X = o.value
        self.toks = tokens(ev.value)
        self.kind = None
        self.C = None
        self.acc = None
        t = self.toks
        if all(x.kind == 'lit' for x in t):
            self.kind = 'root'
        elif t and t[0].kind == 'hole' and self._fullname_of(t[0].expr) is not None:
            self.C = self._fullname_of(t[0].expr)
            if same(self.C, self.X):
                self.kind = 'self'
            else:
                self.kind = 'prefixed'
                self.acc = t[1:]
        elif any(x.kind == 'hole' and self._fullname_of(x.expr) is not None and same(self._fullname_of(x.expr), self.X)
                 for x in t):
            self.kind = 'tombstone'
        else:
            self.kind = 'unprefixed'

    @staticmethod
    def _fullname_of(e):
        if isinstance(e, ast.Attribute) and e.attr == 'full_name' and isinstance(e.value, ast.Attribute) \
                and e.value.attr == '_dsl':
            return e.value.value
        return None

    def field(self, attr):
        """value stored on this path into X._dsl.<attr> (last store) or None"""
        val = None
        for e in self.path.events:
            if e.kind == 'attr' and e.attr == attr and same(e.obj, self.ev.obj):
                val = e
        return val

    def fields(self):
        return {e.attr for e in self.path.events if e.kind == 'attr' and same(e.obj, self.ev.obj)}


def namings(fa, stmts):
    out = []
    for p in fa.paths:
        if p.status == 'raise':
            continue
        for e in p.events:
            if e.kind == 'attr' and e.attr == 'full_name' and any(e.node is s for s in stmts):
                out.append(Naming(fa, p, e))
    return out


# ---------------------------------------------------------------------------
# storage resolution
def _key_text(k):
    if isinstance(k, ast.Tuple):
        return '(' + ', '.join(norm(x) for x in k.elts) + ')'
    return norm(k)


def _dict_of(e):
    """C for an expression `C.__dict__`"""
    if isinstance(e, ast.Attribute) and e.attr == '__dict__':
        return e.value
    return None


def _setattr_like(fa, call):
    """(container, name, value) of setattr(C, n, v) / super().__setattr__(n, v) / object.__setattr__(C, n, v)"""
    f = call.func
    a = call.args
    if call.keywords:
        return None
    if isinstance(f, ast.Name) and f.id == 'setattr' and len(a) == 3:
        return a[0], a[1], a[2]
    if isinstance(f, ast.Attribute) and f.attr == '__setattr__':
        if isinstance(f.value, ast.Call) and norm(f.value.func) == 'super' and len(a) == 2 and fa.me:
            return ast.Name(id=fa.me, ctx=ast.Load()), a[0], a[1]
        if isinstance(f.value, ast.Name) and f.value.id in ('object', 'NamedObject') and len(a) == 3:
            return a[0], a[1], a[2]
    return None


def _pop_of(fa, sym):
    """for a symbol unpacked from `Q.pop*()`: (Q expr, pop call, pop symbol, component index, arity)"""
    d = fa.d(sym)
    if d is None or d.kind != 'unpack' or len(d.index) != 1:
        return None
    d2 = fa.d(d.expr)
    if d2 is None or d2.kind != 'call':
        return None
    c = d2.expr
    if isinstance(c, ast.Call) and isinstance(c.func, ast.Attribute) and c.func.attr in POPS:
        return c.func.value, c, d.expr, d.index[0], d.arity
    return None


def _enumerate_src(e):
    if isinstance(e, ast.Call) and isinstance(e.func, ast.Name) and e.func.id == 'enumerate' and e.args:
        if len(e.args) == 1 and not e.keywords:
            return e.args[0]
        start = e.args[1] if len(e.args) == 2 else (e.keywords[0].value if e.keywords and e.keywords[0].arg == 'start' else None)
        if start is not None and isinstance(start, ast.Constant) and start.value == 0:
            return e.args[0]
        return False     # enumerate with a non-zero start
    return None


class Push:
    """one kind of element put on a BFS queue: elts = tuple components, is_idx(node)/is_elem(node) tell whether a
    component expression is the position / the element of the enumeration of `src`"""
    def __init__(self, elts, src, idx_test, elem_test, method, where, path=None):
        self.elts, self.src, self.is_idx, self.is_elem = elts, src, idx_test, elem_test
        self.method, self.where, self.path = method, where, path


def _push_from_comp(fa, comp, method, where, path=None):
    if not (isinstance(comp.elt, ast.Tuple) and len(comp.generators) == 1 and not comp.generators[0].ifs):
        raise AnalysisError(f"{fa.qual}: queue elements outside the recognised shapes: {pretty(comp)[:80]}")
    g = comp.generators[0]
    src = _enumerate_src(g.iter)
    if src is None or not (isinstance(g.target, ast.Tuple) and len(g.target.elts) == 2
                           and all(isinstance(x, ast.Name) for x in g.target.elts)):
        if src is False:
            raise Verdict(f"queue elements are numbered by `{pretty(g.iter)}`, which does not start at position 0")
        raise AnalysisError(f"{fa.qual}: queue elements are not produced by enumerate(): {pretty(comp)[:80]}")
    if src is False:
        raise Verdict(f"queue elements are numbered by `{pretty(g.iter)}`, which does not start at position 0")
    i, v = g.target.elts[0].id, g.target.elts[1].id
    return Push(comp.elt.elts, src, lambda n: isinstance(n, ast.Name) and n.id == i,
                lambda n: isinstance(n, ast.Name) and n.id == v, method, where, path)


def _push_from_tuple(fa, tup, method, where, path=None):
    """explicit tuple; position / element are loop variables of an enclosing `for i, v in enumerate(src)`"""
    src = [None]

    def role(n, want):
        d = fa.d(n)
        if d is None or d.kind != 'iter' or d.index != (want,):
            return False
        s = _enumerate_src(d.expr)
        if s is False:
            raise Verdict(f"queue elements are numbered by `{pretty(d.expr)}`, which does not start at position 0")
        if s is None:
            return False
        src[0] = s
        return True
    p = Push(tup.elts, None, lambda n: role(n, 0), lambda n: role(n, 1), method, where, path)
    for x in ast.walk(tup):
        if isinstance(x, ast.Name):
            role(x, 0) or role(x, 1)
    p.src = src[0]
    return p


def _single(e, test):
    """e is a one-element tuple/list display whose element satisfies test"""
    return isinstance(e, (ast.Tuple, ast.List)) and len(e.elts) == 1 and test(e.elts[0])


class Bfs:
    """facts about one BFS queue, gathered over all paths of the function"""
    def __init__(self, fa, Q):
        self.fa, self.Q = fa, Q
        d = fa.d(Q)
        if d is None or d.kind not in ('call', 'fresh'):
            raise AnalysisError(f"{fa.qual}: cannot find the construction of the queue {pretty(Q)}")
        arg = d.expr
        if d.kind == 'call':
            if not (isinstance(arg, ast.Call) and norm(arg.func) in ('deque', 'collections.deque', 'list') and len(arg.args) == 1):
                raise AnalysisError(f"{fa.qual}: queue constructed by {pretty(arg)[:60]}")
            arg = arg.args[0]
        self.seeds = []
        if isinstance(arg, (ast.GeneratorExp, ast.ListComp)):
            self.seeds.append(_push_from_comp(fa, arg, 'seed', 'seed'))
        elif isinstance(arg, (ast.List, ast.Tuple)):
            for t in arg.elts:
                if not isinstance(t, ast.Tuple):
                    raise AnalysisError(f"{fa.qual}: queue seed is not a tuple: {pretty(t)}")
                self.seeds.append(Push(t.elts, None, lambda n: False, lambda n: False, 'seed', 'seed'))
        else:
            raise AnalysisError(f"{fa.qual}: queue seed outside the recognised shapes: {pretty(arg)[:60]}")
        # per path: pops and pushes
        self.iterations = []    # (path, pop symbol, {index: component symbol}, [Push])
        self.pop_methods, self.push_methods = set(), set()
        for p in fa.paths:
            pops = [e for e in p.events if e.kind == 'call' and e.bound is not None and isinstance(e.call.func, ast.Attribute)
                    and e.call.func.attr in POPS and same(e.call.func.value, Q)]
            pushes = [e for e in p.events if e.kind == 'call' and isinstance(e.call.func, ast.Attribute)
                      and e.call.func.attr in PUSHES and same(e.call.func.value, Q)]
            if not pops:
                if pushes:
                    raise AnalysisError(f"{fa.qual}: push on {pretty(Q)} outside an iteration that pops")
                continue
            if len(pops) != 1:
                raise Verdict(f"one loop iteration pops the queue {len(pops)} times: elements are skipped / paired wrongly")
            pe = pops[0]
            a = pe.call.args
            m = pe.call.func.attr
            if m == 'pop' and len(a) == 1 and isinstance(a[0], ast.Constant) and a[0].value == 0:
                m = 'popleft'
            elif a:
                raise AnalysisError(f"{fa.qual}: pop with arguments {pretty(pe.call)}")
            self.pop_methods.add(m)
            comps = {}
            for sid, dd in fa.ex.defs.items():
                if dd.kind == 'unpack' and same(dd.expr, pe.bound) and len(dd.index) == 1:
                    # the last binding of a component name on this path is what the path uses
                    comps.setdefault(dd.index[0], []).append(ast.Name(id=sid, ctx=ast.Load()))
            ps = []
            for e in pushes:
                meth = e.call.func.attr
                self.push_methods.add(meth)
                if len(e.call.args) != 1:
                    raise AnalysisError(f"{fa.qual}: push with {len(e.call.args)} arguments")
                arg = e.call.args[0]
                if meth in ('append', 'appendleft'):
                    if not isinstance(arg, ast.Tuple):
                        raise AnalysisError(f"{fa.qual}: pushed element is not a tuple: {pretty(arg)[:60]}")
                    ps.append(_push_from_tuple(fa, arg, meth, e, p))
                else:
                    if not isinstance(arg, (ast.GeneratorExp, ast.ListComp)):
                        raise AnalysisError(f"{fa.qual}: extend argument outside the recognised shapes: {pretty(arg)[:60]}")
                    ps.append(_push_from_comp(fa, arg, meth, e, p))
            self.iterations.append((p, pe, comps, ps))
            if pe.loops:
                esc = _loop_escapes(pe.loops[-1])
                if esc:
                    raise Verdict(f"the loop over the queued elements is left by `{norm(esc[0])}` (line {esc[0].lineno}) while "
                                  f"elements may remain: objects queued behind it (e.g. after a None / plain-data element) are "
                                  f"stored but never named")
        if not self.iterations:
            raise AnalysisError(f"{fa.qual}: no iteration pops the queue {pretty(Q)}")
        ar = {len(s.elts) for s in self.seeds} | {len(x.elts) for it in self.iterations for x in it[3]} | \
             {len(it[2]) for it in self.iterations}
        if len(ar) != 1:
            raise Verdict(f"queue elements have different arities {sorted(ar)}: popped tuple does not match what was pushed")
        self.arity = ar.pop()

    def comp(self, it, k):
        c = it[2].get(k)
        if not c:
            raise AnalysisError(f"{self.fa.qual}: popped component {k} not found")
        return c

    def is_comp(self, it, k, e):
        return any(same(e, c) for c in self.comp(it, k))

    def fifo(self):
        ok = {('popleft', 'append'), ('popleft', 'extend'), ('pop', 'appendleft')}
        return all((a, b) in ok for a in self.pop_methods for b in self.push_methods)

    # --- variant B: elements carry their own index tuple; element e with tuple t is ROOT[t0][t1]...
    def check_indexed(self):
        """returns (ROOT, k_elem, k_idx); raises Verdict"""
        if self.arity != 2:
            raise AnalysisError(f"{self.fa.qual}: (element, indices) queue expected, arity is {self.arity}")
        if len(self.seeds) != 1 or self.seeds[0].src is None:
            raise AnalysisError(f"{self.fa.qual}: queue seed is not an enumeration of the stored list")
        sd = self.seeds[0]
        ke = [k for k, x in enumerate(sd.elts) if sd.is_elem(x)]
        if len(ke) != 1:
            raise Verdict(f"the queue is seeded with `{pretty(ast.Tuple(elts=sd.elts, ctx=ast.Load()))}`: no component is the "
                          f"enumerated element itself")
        ke = ke[0]
        ki = 1 - ke
        if not _single(sd.elts[ki], sd.is_idx):
            raise Verdict(f"the queue is seeded with index `{pretty(sd.elts[ki])}` for the element at enumerate position i: "
                          f"the recorded index is not the position of the element in the stored list")
        root = sd.src
        rec = 0
        for it in self.iterations:
            for ps in it[3]:
                if ps.src is None or not self.is_comp(it, ke, ps.src):
                    raise Verdict(f"children are enumerated from `{pretty(ps.src) if ps.src is not None else '?'}`, not from the "
                                  f"popped list element: indices recorded do not address the nested list")
                if not ps.is_elem(ps.elts[ke]):
                    raise Verdict(f"pushed element `{pretty(ps.elts[ke])}` is not the enumerated child")
                t = ps.elts[ki]
                if not (isinstance(t, ast.BinOp) and isinstance(t.op, ast.Add) and self.is_comp(it, ki, t.left)
                        and _single(t.right, ps.is_idx)):
                    raise Verdict(f"child index tuple is `{pretty(t)}`; it must be <indices of the popped list> + (position,) "
                                  f"so that name[i][j] addresses the child")
                rec += 1
        if not rec:
            raise Verdict("nested lists are never expanded: objects inside a list of lists are collected but never named")
        return root, ke, ki

    # --- variant C: created objects are appended to a parent list created one level up
    def check_appended(self):
        """returns dict(C0=container, key=__dict__ key, k_idx, k_par, k_flag); raises Verdict"""
        fa = self.fa
        if len(self.seeds) != 1 or self.seeds[0].src is not None:
            raise AnalysisError(f"{fa.qual}: a single explicit seed tuple expected")
        sd = self.seeds[0].elts
        kf = [k for k, x in enumerate(sd) if isinstance(x, ast.Constant) and x.value is False]
        ki = [k for k, x in enumerate(sd) if isinstance(x, (ast.List, ast.Tuple))]
        if len(kf) != 1 or len(ki) != 1:
            raise AnalysisError(f"{fa.qual}: cannot identify the (indices, parent-is-list) components of the seed "
                                f"{[pretty(x) for x in sd]}")
        kf, ki = kf[0], ki[0]
        if sd[ki].elts:
            raise Verdict(f"the queue is seeded with indices `{pretty(sd[ki])}` for the field itself: a plain field would be "
                          f"named name{pretty(sd[ki])} although it is stored under `name`")
        if not self.fifo():
            raise Verdict(f"queue discipline is {sorted(self.pop_methods)}/{sorted(self.push_methods)}, not FIFO: children "
                          f"are appended to their parent list in an order different from their enumerate index, so "
                          f"name[i] denotes another element")
        kp = None
        key = None
        for it in self.iterations:
            p = it[0]
            if p.status == 'raise':
                continue
            stores = []
            for e in p.events:
                if e.kind == 'call' and isinstance(e.call.func, ast.Attribute) and e.call.func.attr == 'append' \
                        and len(e.call.args) == 1 and not same(e.call.func.value, self.Q):
                    for k in it[2]:
                        if self.is_comp(it, k, e.call.func.value):
                            stores.append(('append', k, None, e.call.args[0], e))
                elif e.kind == 'sub' and _dict_of(e.obj) is not None:
                    for k in it[2]:
                        if self.is_comp(it, k, _dict_of(e.obj)):
                            stores.append(('dict', k, e.key, e.value, e))
            if len(stores) != 1:
                raise Verdict(f"an iteration stores the created object {len(stores)} times into its parent "
                              f"(exactly one append / __dict__ store per popped element is required for positions to match)")
            how, k, kx, val, e = stores[0]
            if kp is None:
                kp = k
            elif kp != k:
                raise Verdict("the parent component differs between iterations")
            flag_true = any(self.is_comp(it, kf, t) and pol for t, pol in p.atoms())
            flag_false = any(self.is_comp(it, kf, t) and not pol for t, pol in p.atoms())
            if how == 'append' and not flag_true:
                raise Verdict("object appended to the parent without the parent-is-list flag being tested true")
            if how == 'dict' and not flag_false:
                raise Verdict("object stored in the parent's __dict__ without the parent-is-list flag being tested false")
            if how == 'dict':
                if key is None:
                    key = kx
                elif not same(key, kx):
                    raise Verdict(f"root object stored under different keys `{pretty(key)}` / `{pretty(kx)}`")
            # pushes of this iteration: children go to the object stored by this iteration
            for ps in it[3]:
                if len(ps.elts) <= max(kf, ki, kp):
                    raise AnalysisError("arity")
                if not (isinstance(ps.elts[kf], ast.Constant) and ps.elts[kf].value is True):
                    raise Verdict(f"children are pushed with parent-is-list flag `{pretty(ps.elts[kf])}`, must be True")
                t = ps.elts[ki]
                if not (isinstance(t, ast.BinOp) and isinstance(t.op, ast.Add) and self.is_comp(it, ki, t.left)
                        and _single(t.right, ps.is_idx)):
                    raise Verdict(f"child index list is `{pretty(t)}`; it must be <indices of the popped list> + [position] "
                                  f"so that name[i][j] addresses the child")
                pd = fa.d(ps.elts[kp])
                if pd is None or pd.kind != 'fresh' or not (isinstance(pd.expr, ast.List) and not pd.expr.elts):
                    raise Verdict(f"children are given parent `{pretty(ps.elts[kp])}`, which is not a fresh empty list "
                                  f"created for the popped list")
                if not same(ps.elts[kp], val):
                    raise Verdict(f"children are appended to `{pretty(ps.elts[kp])}` but this iteration stores "
                                  f"`{pretty(val)}` into its parent: the list holding the children is not reachable "
                                  f"under the name")
            it[0]._c14_store = (how, val)
        if kp is None or key is None:
            raise AnalysisError(f"{fa.qual}: no root store found")
        if not (isinstance(sd[kp], ast.Name) or isinstance(sd[kp], ast.Attribute)):
            raise AnalysisError(f"{fa.qual}: seed parent {pretty(sd[kp])}")
        if not any(it[3] for it in self.iterations):
            raise Verdict("list-valued fields are never expanded into per-element signals")
        return dict(C0=sd[kp], key=key, k_idx=ki, k_par=kp, k_flag=kf)


def _bfs(fa, Q):
    c = _cache(fa)
    key = ('bfs', norm(Q))
    if key not in c:
        try:
            c[key] = Bfs(fa, Q)
        except Verdict as v:
            c[key] = v
    b = c[key]
    if isinstance(b, Verdict):
        raise b
    return b


def _memo(b, name):
    c = _cache(b)
    if name not in c:
        try:
            c[name] = getattr(b, name)()
        except Verdict as v:
            c[name] = v
    x = c[name]
    if isinstance(x, Verdict):
        raise x
    return x


def _walk(fa, lp, key_expr):
    """index walk: `lp` is a symbol havocked by a loop that descends through IDX[0..n-2]; key_expr = IDX[last].
    Returns (root expr before the loop, IDX expr); raises Verdict."""
    d = fa.d(lp)
    if d is None or d.kind != 'loop' or d.pre is None:
        return None
    L = d.node
    name_lp = d.name
    if isinstance(L, ast.While):
        if not isinstance(key_expr, ast.Subscript):
            raise AnalysisError(f"{fa.qual}: walk key {pretty(key_expr)}")
        idx = key_expr.value
        di = fa.d(key_expr.slice)
        if di is None or di.kind != 'loop' or di.node is not L:
            raise Verdict(f"the element is stored at `{pretty(key_expr)}`, whose counter is not the one of the index walk")
        name_i = di.name
        if not isinstance(idx, ast.Name):
            raise AnalysisError(f"{fa.qual}: index sequence {pretty(idx)} is not a plain name")
        # loop body transformer:  LP <- LP[IDX[i]] ; i <- i + 1   (in that order)
        ex = SymExec(fa.func)
        st = State()
        st.env[name_lp] = ast.Name(id='LP0', ctx=ast.Load())
        st.env[name_i] = ast.Name(id='I0', ctx=ast.Load())
        outs = [x for x in ex.block(L.body, st)]
        if len(outs) != 1 or outs[0].status != 'run':
            raise AnalysisError(f"{fa.qual}: index walk body is not straight-line")
        o = outs[0]
        want = f"LP0[{idx.id}[I0]]"
        if norm(o.env.get(name_lp)) != want:
            raise Verdict(f"index walk descends by `{pretty(o.env.get(name_lp))}`; expected {name_lp}[{idx.id}[{name_i}]] "
                          f"evaluated before the counter is advanced")
        if not lin_eq(o.env.get(name_i), ast.parse('I0 + 1', mode='eval').body):
            raise Verdict(f"index walk advances the counter by `{pretty(o.env.get(name_i))}`")
        if not (isinstance(di.pre, ast.Constant) and di.pre.value == 0):
            raise Verdict(f"index walk starts at position `{pretty(di.pre)}`, not 0: leading indices are skipped")
        # exit threshold: the loop runs while i < n-1  (compared over the grid of (i, n))
        for n in range(1, 6):
            for i in range(0, n + 1):
                got = bool(Evaluator({name_i: i, idx.id: tuple(range(n))}, arith=True, funcs={'len': len}).ev(L.test))
                if got != (i < n - 1):
                    raise Verdict(f"index walk condition `{pretty(L.test)}` is {got} at position {i} of {n} indices; it must "
                                  f"stop exactly at the last index, which addresses the slot to fill")
        return d.pre, idx
    if isinstance(L, ast.For):
        it = L.iter
        if not (isinstance(it, ast.Subscript) and isinstance(it.slice, ast.Slice) and it.slice.lower is None
                and it.slice.step is None and norm(it.slice.upper) == '-1' and isinstance(it.value, ast.Name)
                and isinstance(L.target, ast.Name)):
            raise AnalysisError(f"{fa.qual}: for-walk iterates {pretty(it)}")
        idx = subst(it.value, {})
        if not (len(L.body) == 1 and norm(L.body[0]) == f"{name_lp} = {name_lp}[{L.target.id}]"):
            raise Verdict(f"index walk body `{pretty(norm(L.body))}` does not descend by the loop index")
        if not (isinstance(key_expr, ast.Subscript) and norm(key_expr.slice) == '-1' and same(key_expr.value, idx)):
            raise Verdict(f"the element is stored at `{pretty(key_expr)}`, not at the last index")
        return d.pre, idx
    return None


def _root_attr(fa, e):
    """(C, name) for getattr(C, name) / C.__dict__[name]"""
    if isinstance(e, ast.Call) and isinstance(e.func, ast.Name) and e.func.id == 'getattr' and len(e.args) == 2:
        return e.args[0], e.args[1]
    if isinstance(e, ast.Subscript) and _dict_of(e.value) is not None:
        return _dict_of(e.value), e.slice
    return None


def resolve_storage(nm):
    if not hasattr(nm, '_storage'):
        try:
            nm._storage = _resolve_storage(nm)
        except Verdict as v:
            nm._storage = v
            _cache(nm.fa.mod.repo)['broken'] = True
    if isinstance(nm._storage, Verdict):
        raise nm._storage
    return nm._storage


def _resolve_storage(nm):
    """where does the path put nm.X ?  -> (container expr, [Step], how) ; raises Verdict if it definitely
    is not stored, AnalysisError if the storage idiom is not understood"""
    fa, p, X = nm.fa, nm.path, nm.X
    cands = []
    # (1) X popped from a BFS queue carrying index tuples
    po = _pop_of(fa, X)
    if po is not None:
        b = _bfs(fa, po[0])
        root, ke, ki = _memo(b, 'check_indexed')
        it = [i for i in b.iterations if i[0] is p]
        if not it:
            raise AnalysisError(f"{fa.qual}: naming path without pop")
        it = it[0]
        if not b.is_comp(it, ke, X):
            raise Verdict(f"the object named is popped component {po[3]}, which is the index tuple, not the element")
        for e in p.events:
            if e.kind == 'call':
                s = _setattr_like(fa, e.call)
                if s is not None and same(s[2], root):
                    cands.append((s[0], [Step('attr', s[1]), Step('idx*', b.comp(it, ki)[-1])], 'list element (BFS)'))
        if not cands:
            raise Verdict(f"the list `{pretty(root)}` whose elements are named is never stored with setattr on this path")
        return cands[0]
    for e in p.events:
        if e.kind == 'call' and e.bound is None:
            s = _setattr_like(fa, e.call)
            if s is not None and same(s[2], X):
                cands.append((s[0], [Step('attr', s[1])], 'setattr'))
            elif isinstance(e.call.func, ast.Attribute) and e.call.func.attr == 'append' and len(e.call.args) == 1 \
                    and same(e.call.args[0], X):
                po2 = _pop_of(fa, e.call.func.value)
                if po2 is None:
                    continue      # e.g. the elaborate stack: not a storage that makes the object reachable by name
                b = _bfs(fa, po2[0])
                info = _memo(b, 'check_appended')
                it = [i for i in b.iterations if i[0] is p][0]
                cands.append((info['C0'], [Step('attr', info['key']), Step('idx*', b.comp(it, info['k_idx'])[-1])],
                              'appended to parent list (BFS)'))
        elif e.kind == 'sub' and same(e.value, X):
            C = _dict_of(e.obj)
            if C is not None:
                po2 = _pop_of(fa, C)
                if po2 is not None:
                    b = _bfs(fa, po2[0])
                    info = _memo(b, 'check_appended')
                    it = [i for i in b.iterations if i[0] is p][0]
                    cands.append((info['C0'], [Step('attr', info['key']), Step('idx*', b.comp(it, info['k_idx'])[-1])],
                                  '__dict__ of the seed parent (BFS)'))
                elif isinstance(e.key, ast.Tuple) and len(e.key.elts) == 2:
                    cands.append((C, [Step('slice', e.key.elts[0], e.key.elts[1])], '__dict__ slice key'))
                else:
                    cands.append((C, [Step('attr', e.key)], '__dict__ key'))
            else:
                w = _walk(fa, e.obj, e.key)
                if w is not None:
                    ra = _root_attr(fa, w[0])
                    if ra is None:
                        raise AnalysisError(f"{fa.qual}: index walk starts from {pretty(w[0])}")
                    cands.append((ra[0], [Step('attr', ra[1]), Step('idx*', w[1])], 'list slot (index walk)'))
    if not cands:
        if fa.mode != 'full':
            raise AnalysisError(f"{fa.qual}: storage of `{pretty(X)}` not found (function analysed in {fa.mode} mode)")
        raise Verdict(f"`{pretty(X)}` is given a name but is not stored on this path (no setattr / __dict__ / list store "
                      f"of it follows or precedes)")
    return cands[0]


def _steps_text(steps):
    return ''.join(repr(s) for s in steps)


def _steps_equal(a, b):
    return [s.key() for s in a] == [s.key() for s in b]


# ---------------------------------------------------------------------------
# named path fact (DESIGN.md 3.6): Signal.__getattr__ non-bitstruct arm is dead
def _dead_arm(repo, nm):
    if nm.C is None:
        return False
    want = f"is_bitstruct_class({norm(nm.C)}._dsl.Type)"
    if not nm.path.holds(want, False):
        return False
    if not nm.path.holds(f"{norm(nm.C)}._dsl.type_instance is None", False):
        return False
    m = repo.mod(CONN)
    init = m.get_func('Signal.__init__')
    for a in ast.walk(init):
        if isinstance(a, ast.Assert):
            txt = norm(a.test)
            if 'issubclass(Type, Bits)' in txt and 'is_bitstruct_class(Type)' in txt and ' or ' in txt:
                return True
    return False


def _analysed(repo):
    """[(fa, stmt, [Naming])]"""
    c = _cache(repo)
    if 'namings' not in c:
        out = []
        for fa, sts in naming_sites(repo):
            for st in sts:
                out.append((fa, st, [n for n in namings(fa, [st])]))
        c['namings'] = out
    return c['namings']


# ---------------------------------------------------------------------------
def rule_name_storage(repo):
    r = RuleResult('R-C14-name-storage', "the text of every assigned full name denotes exactly the storage operation "
                                         "performed for the object, prefixed by the object that stores it")
    seen_dead = 0
    for fa, st, nms in _analysed(repo):
        cons = pretty(norm(st))
        if not nms:
            raise AnalysisError(f"{fa.qual}: no completed path reaches `{cons}`")
        results = {}      # message -> line  (bad) ; summary -> None (ok)
        good = {}
        for nm in nms:
            r.evaluations += 1
            if nm.kind == 'root':
                txt = ''.join(t.text for t in nm.toks)
                if txt.isidentifier() and txt == 's':
                    good[f"root named by the constant identifier '{txt}'"] = 1
                else:
                    results[f"root name {txt!r} is not the identifier `s` that generated code binds to the top component"] = 1
                continue
            if nm.kind == 'tombstone':
                lit = ''.join(t.text if t.kind == 'lit' else 'P' for t in nm.toks)
                try:
                    ast.parse(lit, mode='eval')
                    results[f"name of a removed object `{lit}` still parses as a Python expression and can alias a live object"] = 1
                except SyntaxError:
                    detached = any(e.kind == 'del' and e.attr == 'parent_obj' and same(e.obj, nm.ev.obj) for e in nm.path.events)
                    if detached:
                        good["removed object renamed to text that can never be a live name; parent link deleted"] = 1
                    else:
                        results["object renamed as deleted but its parent link is kept"] = 1
                continue
            if nm.kind in ('unprefixed', 'self'):
                results[f"name `{[t for t in nm.toks]}` does not start with the full name of a container object"] = 1
                continue
            if _dead_arm(repo, nm):
                seen_dead += 1
                continue
            # path class (kept in the construct so that one broken statement still counts once per class)
            cls_ = ''
            if _sliced_polarity(fa, nm) is not None:
                cls_ = f" [{_slice_label(fa, nm)}]"
            try:
                ap = access_path(nm.acc)
            except TemplateError as e:
                results[str(e) + cls_] = 1
                continue
            try:
                C, steps, how = resolve_storage(nm)
            except Verdict as v:
                results[str(v) + cls_] = 1
                continue
            if not _steps_equal(ap, steps):
                results[f"name denotes <container>{_steps_text(ap)} but the object is stored at <container>{_steps_text(steps)} "
                        f"({how}): eval(repr(obj)) yields another object or fails"] = 1
                continue
            if not same(C, nm.C):
                results[f"name is prefixed with the full name of `{pretty(nm.C)}` but the object is stored in `{pretty(C)}` "
                        f"({how})"] = 1
                continue
            # slices: absolute bounds, identity on a non-sliced signal
            if steps[-1].kind == 'slice':
                msg = _slice_obligation(fa, nm, C, steps[-1])
                if msg:
                    results[msg] = 1
                    continue
                good[f"{pretty(C)}{_steps_text(steps)} via {how} [{_slice_label(fa, nm)}]"] = 1
            else:
                good[f"{pretty(C)}{_steps_text(steps)} via {how}"] = 1
        for msg in results:
            tag = msg[msg.rindex(' ['):] if msg.endswith(']') and ' [' in msg else ''
            r.bad(fa.mod, fa.qual, cons + tag, msg, st.lineno)
        for g in good:
            r.ok(fa.mod, fa.qual, f"{cons} :: {g}")
    _decorated_sites(r, repo)
    if seen_dead:
        r.observations.append(f"Signal.__getattr__ non-bitstruct arm treated as unreachable on {seen_dead} paths "
                              f"(Signal.__init__ asserts Bits-or-bitstruct; arm needs a type instance)")
    _floor(r, 17, repo)
    return r


def _class_namespace_key(fa, n):
    """n is the loop variable over the keys of the class namespace of the object under construction"""
    d = fa.d(n)
    if d is None or d.kind != 'iter':
        return False
    me = fa.me
    src = norm(d.expr)
    keys = {f"{me}.__class__.__dict__", f"type({me}).__dict__", f"vars({me}.__class__)", f"vars(type({me}))", f"dir({me})",
            f"dir({me}.__class__)", f"dir(type({me}))"}
    if src in keys or src in {k + '.keys()' for k in keys}:
        return d.index == ()
    if src in {k + '.items()' for k in keys}:
        return d.index == (0,)
    return False


def _decorated_sites(r, repo):
    """objects created from decorated methods (@method_port / @non_blocking / @blocking) are stored under the key the
    method was found under in the class namespace -- the name the setattr hook then gives them evaluates to them"""
    found = 0
    for rel in DSL_FILES:
        if not repo.exists(rel):
            continue
        m = repo.mod(rel)
        for cname in sorted(m.classes):
            if '_handle_decorated_methods' not in m.methods(cname):
                continue
            fa = analyse(repo, rel, f"{cname}._handle_decorated_methods")
            me = fa.me
            per = {}
            for p in fa.paths:
                for e in p.events:
                    if not (e.kind == 'call' and e.bound is None):
                        continue
                    sl = _setattr_like(fa, e.call)
                    if sl is None:
                        continue
                    C, n, v = sl
                    r.evaluations += 1
                    cons = pretty(norm(e.node))
                    msgs = per.setdefault((cons, e.node.lineno), set())
                    if norm(C) != me:
                        msgs.add(f"object stored on `{pretty(C)}`, not on the component under construction")
                    if not _class_namespace_key(fa, n):
                        msgs.add(f"object stored under `{pretty(n)}`, which is not the key under which the method was found in "
                                 f"the class namespace: `peek = method_port(lambda s: ...)` is registered as `<lambda>` (the "
                                 f"name does not evaluate and s.peek stays a plain function); aliases and renamed "
                                 f"functions likewise")
                        continue
                    dv = fa.d(v)
                    ctor = v if isinstance(v, ast.Call) else (dv.expr if dv is not None and dv.kind == 'call' else None)
                    wrapped = None
                    if isinstance(ctor, ast.Call):
                        wrapped = next((k.value for k in ctor.keywords if k.arg == 'method'), None)
                    if wrapped is None:
                        raise AnalysisError(f"{fa.qual}: cannot find the wrapped method of {pretty(v)}")
                    if norm(wrapped) not in (f"getattr({me}, {norm(n)})", f"{me}.__class__.__dict__[{norm(n)}]"):
                        msgs.add(f"the object stored under `{pretty(n)}` wraps `{pretty(wrapped)}`, not the method found under "
                                 f"that key")
            for (cons, line), msgs in sorted(per.items()):
                found += 1
                for m_ in sorted(msgs):
                    r.bad(fa.mod, fa.qual, cons, m_, line)
                if not msgs:
                    r.ok(fa.mod, fa.qual, f"{cons} :: stored under its class-namespace key")
    if found < 4:
        raise AnalysisError(f"anchor vanished: decorated-method sites ({found} found)")


def _sliced_polarity(fa, nm):
    """True: path is for a signal that is itself a slice; False: a non-sliced signal; None: unknown"""
    me = fa.me
    for t, pol in nm.path.atoms():
        txt = norm(t)
        if txt == f"{me}._dsl.slice is None":
            return not pol
        if txt == f"{me}.is_sliced_signal()":
            return pol
    return None


def _slice_label(fa, nm):
    sp = _sliced_polarity(fa, nm)
    a = [x.arg for x in fa.func.args.args]
    kind = 'int index' if len(a) > 1 and nm.path.holds(f"isinstance({a[1]}, int)", True) else 'slice index'
    return f"{'slice of a slice' if sp else 'non-sliced signal'}, {kind}"


def _slice_obligation(fa, nm, C, step):
    """absolute-bounds obligations for a slice naming path; returns message or None"""
    me = fa.me
    args = [a.arg for a in fa.func.args.args]
    if len(args) < 2:
        raise AnalysisError(f"{fa.qual}: slice site without index parameter")
    idx = args[1]
    sp = _sliced_polarity(fa, nm)
    if sp is None:
        raise AnalysisError(f"{fa.qual}: cannot tell whether the path handles a sliced signal")
    is_int = nm.path.holds(f"isinstance({idx}, int)", True)
    is_sl = nm.path.holds(f"isinstance({idx}, slice)", True)
    if is_int:
        rel = (ast.parse(idx, mode='eval').body, ast.parse(f"{idx} + 1", mode='eval').body)
    elif is_sl:
        rel = (ast.parse(f"{idx}.start", mode='eval').body, ast.parse(f"{idx}.stop", mode='eval').body)
    else:
        raise AnalysisError(f"{fa.qual}: index kind of the path unknown")
    if not sp:
        if not same(C, ast.Name(id=me, ctx=ast.Load())):
            return f"slice of a non-sliced signal is cached in `{pretty(C)}`, not in the signal itself"
        want = rel
        why = "evaluating the name on the non-sliced signal computes the key from the written bounds unchanged"
    else:
        if norm(C) != f"{me}._dsl.parent_obj":
            return (f"slice of a slice is cached in / named after `{pretty(C)}`; it must be the non-sliced parent "
                    f"({me}._dsl.parent_obj): evaluating the name re-enters __getitem__ on the parent")
        off = ast.parse(f"{me}._dsl.slice.start", mode='eval').body
        want = tuple(ast.BinOp(left=x, op=ast.Add(), right=off) for x in rel)
        why = "bounds of a slice of a slice must be offset by the outer slice's start (absolute bounds in the parent)"
    for got, w, nme in ((step.a, want[0], 'lower'), (step.b, want[1], 'upper')):
        if not lin_eq(got, w):
            return f"{nme} bound in the name / cache key is `{pretty(got)}`, expected `{pretty(norm(w))}`: {why}"
    return None


# ---------------------------------------------------------------------------
def rule_cache(repo):
    r = RuleResult('R-C14-cache', "lazily created field / slice signals are created only when absent from the container's "
                                  "__dict__, stored under the tested key and returned from it (same object on every evaluation)")
    for fa, st, nms in _analysed(repo):
        lazy = {}
        for nm in nms:
            if nm.kind != 'prefixed' or _dead_arm(repo, nm):
                continue
            try:
                C, steps, how = resolve_storage(nm)
            except Verdict:
                continue     # reported by name-storage
            if '__dict__' not in how and 'BFS)' not in how or how.startswith('list element'):
                continue
            r.evaluations += 1
            if steps[-1].kind == 'slice':
                key = ast.Tuple(elts=[steps[-1].a, steps[-1].b], ctx=ast.Load())
            else:
                key = steps[0].a
            kt = _key_text(key)
            cons = f"{pretty(norm(st))} :: {pretty(C)}.__dict__[{pretty(kt)}]"
            msgs = lazy.setdefault(cons, [])
            # created only when absent
            tested = [(t, pol) for t, pol in nm.path.atoms() if isinstance(t, ast.Compare) and isinstance(t.ops[0], ast.In)
                      and _dict_of(t.comparators[0]) is not None]
            hit = [x for x in tested if _key_text(x[0].left) == kt and same(_dict_of(x[0].comparators[0]), C)]
            if not hit:
                if tested:
                    t = tested[0][0]
                    msgs.append(f"object created under the test `{pretty(t)}` but cached as {pretty(C)}.__dict__[{pretty(kt)}]: "
                                f"a second evaluation of the same expression creates a second object / returns another one")
                else:
                    msgs.append(f"object created and cached as {pretty(C)}.__dict__[{pretty(kt)}] without testing that the key is "
                                f"absent: every evaluation creates a new object with the same name")
            elif any(pol for _, pol in hit):
                msgs.append("object created when the key is already present")
            # returned from the same slot
            if nm.path.status == 'return':
                rv = nm.path.retval
                okr = (isinstance(rv, ast.Subscript) and same(_dict_of(rv.value), C) and _key_text(rv.slice) == kt)
                if steps[-1].kind == 'slice' or len(steps) == 1:
                    okr = okr or same(rv, nm.X)
                if not okr:
                    msgs.append(f"creation path returns `{pretty(rv)}`, not the object cached at {pretty(C)}.__dict__[{pretty(kt)}]")
            else:
                msgs.append("creation path does not return the cached object")
        for cons, msgs in lazy.items():
            if msgs:
                for m_ in sorted(set(msgs)):
                    r.bad(fa.mod, fa.qual, cons, m_, st.lineno)
            else:
                r.ok(fa.mod, fa.qual, cons)
        if lazy:
            # hit paths: every path returning a __dict__ lookup must have tested presence of that very entry
            hits = {}
            for p in fa.paths:
                if p.status != 'return' or not isinstance(p.retval, ast.Subscript) or _dict_of(p.retval.value) is None:
                    continue
                r.evaluations += 1
                C = _dict_of(p.retval.value)
                kt = _key_text(p.retval.slice)
                pols = {pol for t, pol in p.atoms() if isinstance(t, ast.Compare) and isinstance(t.ops[0], ast.In)
                        and _key_text(t.left) == kt and same(_dict_of(t.comparators[0]), C)}
                if pols == {False}:
                    continue       # creation branch, judged above
                cons = f"return {pretty(p.retval)} (already cached)"
                hits.setdefault(cons, set())
                if not pols:
                    hits[cons].add("returns a __dict__ entry whose presence was tested under a different key / "
                                   "container: KeyError or another object than the one named")
            for cons, msgs in hits.items():
                for m_ in msgs:
                    r.bad(fa.mod, fa.qual, cons, m_, fa.func.lineno)
                if not msgs:
                    r.ok(fa.mod, fa.qual, cons)
    _floor(r, 10, repo)
    return r


# ---------------------------------------------------------------------------
def _strip_dot(acc):
    """accessor tokens without the leading '.'"""
    if acc and acc[0].kind == 'lit' and acc[0].text.startswith('.'):
        rest = acc[0].text[1:]
        return ([Tok('lit', text=rest)] if rest else []) + list(acc[1:])
    return None


def rule_meta(repo):
    r = RuleResult('R-C14-meta', "parent_obj, my_name, _my_name, _my_indices, level, top_level_signal and slice agree with the "
                                 "container and accessor of the full name")
    for fa, st, nms in _analysed(repo):
        per = {}     # field -> set(messages) ; '' for ok

        def note(field, msg=None):
            per.setdefault(field, set())
            if msg:
                per[field].add(msg)
        for nm in nms:
            if nm.kind == 'root':
                r.evaluations += 1
                for fld, want in (('parent_obj', 'None'), ('level', '0')):
                    e = nm.field(fld)
                    note(fld, None if e is not None and norm(e.value) == want else
                         f"root {fld} is `{pretty(e.value) if e else 'unset'}`, must be {want}")
                e = nm.field('my_name')
                note('my_name', None if e is not None and norm(e.value) == norm(nm.ev.value) else
                     "root my_name differs from its full name")
                continue
            if nm.kind != 'prefixed' or _dead_arm(repo, nm):
                continue
            try:
                access_path(nm.acc)
                C, steps, how = resolve_storage(nm)
            except (TemplateError, Verdict):
                _cache(repo)['broken'] = True
                continue
            r.evaluations += 1
            C = nm.C
            cn = norm(C)
            lazy = ('__dict__' in how) or how.startswith('appended')
            is_slice = steps[-1].kind == 'slice'
            # parent
            e = nm.field('parent_obj')
            note('parent_obj', None if e is not None and same(e.value, C) else
                 f"parent_obj is `{pretty(e.value) if e else 'unset'}` but the name says the object lives in `{pretty(C)}`: "
                 f"get_parent_object()/get_host_component() disagree with the name")
            # my_name
            e = nm.field('my_name')
            if e is None:
                note('my_name', "my_name is not assigned")
            else:
                got = tok_keys(tokens(e.value))
                if is_slice:
                    want = tok_keys([Tok('hole', expr=ast.parse(f"{cn}._dsl.my_name", mode='eval').body)] + list(nm.acc))
                else:
                    sd_ = _strip_dot(nm.acc)
                    want = tok_keys(sd_) if sd_ is not None else None
                note('my_name', None if got == want else
                     f"my_name `{pretty(e.value)}` is not the last component of the full name")
            if not is_slice:
                e = nm.field('_my_name')
                note('_my_name', None if e is not None and same(e.value, steps[0].a) else
                     f"_my_name is `{pretty(e.value) if e else 'unset'}`, the attribute in the name is `{pretty(steps[0].a)}`")
                e = nm.field('_my_indices')
                if len(steps) > 1:
                    okv = e is not None and same(e.value, steps[1].a)
                    note('_my_indices', None if okv else
                         f"_my_indices is `{pretty(e.value) if e else 'unset'}`, the indices in the name are `{pretty(steps[1].a)}` "
                         f"(replace_component / RTLIR index expressions use them to find the list slot)")
                else:
                    okv = e is not None and (norm(e.value) in ('None', '()', '[]'))
                    note('_my_indices', None if okv else
                         f"_my_indices is `{pretty(e.value) if e else 'unset'}` for an object that is not a list element")
            if not lazy:
                e = nm.field('level')
                want = ast.parse(f"{cn}._dsl.level + 1", mode='eval').body
                note('level', None if e is not None and lin_eq(e.value, want) else
                     f"level is `{pretty(e.value) if e else 'unset'}`, must be the container's level + 1")
            else:
                e = nm.field('top_level_signal')
                note('top_level_signal', None if e is not None and norm(e.value) == f"{cn}._dsl.top_level_signal" else
                     f"top_level_signal is `{pretty(e.value) if e else 'unset'}`; a lazily created signal must inherit "
                     f"`{pretty(cn)}._dsl.top_level_signal` (nested struct fields / slices of fields)")
            if is_slice:
                e = nm.field('slice')
                okv = e is not None and isinstance(e.value, ast.Call) and norm(e.value.func) == 'slice' \
                    and len(e.value.args) == 2 and lin_eq(e.value.args[0], steps[-1].a) and lin_eq(e.value.args[1], steps[-1].b)
                note('slice', None if okv else
                     f"_dsl.slice is `{pretty(e.value) if e else 'unset'}`, the name / cache key says "
                     f"[{pretty(steps[-1].a)}:{pretty(steps[-1].b)}] (slices of this slice are offset by it)")
        for fld, msgs in sorted(per.items()):
            cons = f"{pretty(norm(st))} :: {fld}"
            if msgs:
                for m_ in sorted(msgs):
                    r.bad(fa.mod, fa.qual, cons, m_, st.lineno)
            else:
                r.ok(fa.mod, fa.qual, cons)
    # who may mark a signal as sliced: only the slice site and the constructor (None)
    writers = 0
    for rel in repo.py_files('pymtl3'):
        src = repo.src(rel)
        if '.slice' not in src:
            continue
        m = repo.mod(rel)
        for f in _functions(m.tree):
            for stn in _own_stores(f, 'slice'):
                writers += 1
                val = stn.value
                q = qualname(f)
                if norm(val) == 'None' and q.endswith('Signal.__init__'):
                    r.ok(m, q, pretty(norm(stn)), nontrivial=False)
                elif any(fa.func is f for fa, _, _ in _analysed(repo)):
                    r.ok(m, q, pretty(norm(stn)), nontrivial=False)
                else:
                    r.bad(m, q, pretty(norm(stn)), "`_dsl.slice` written outside the slice-creation site: the invariant "
                          "'the parent of a sliced signal is not sliced' used for slice-of-slice names is lost", stn.lineno)
    if writers < 2 and not r.findings:
        raise AnalysisError("anchor vanished: writers of _dsl.slice")
    _floor(r, 29, repo)
    return r


# ---------------------------------------------------------------------------
def rule_reassign(repo):
    r = RuleResult('R-C14-reassign', "a second hardware object / list under an existing field name is rejected on every "
                                     "naming arm; a list slot is filled only when it is empty")
    arms = 0
    for fa, st, nms in _analysed(repo):
        reg_msgs, reg_ok = set(), set()
        for nm in nms:
            if nm.kind != 'prefixed' or _dead_arm(repo, nm):
                continue
            try:
                C, steps, how = resolve_storage(nm)
            except Verdict:
                continue
            if how in ('setattr', 'list element (BFS)'):
                r.evaluations += 1
                n = steps[0].a
                reg = f"{norm(C)}._dsl.NamedObject_fields"
                added = any(e.kind == 'call' and isinstance(e.call.func, ast.Attribute) and e.call.func.attr == 'add'
                            and norm(e.call.func.value) == reg and len(e.call.args) == 1 and same(e.call.args[0], n)
                            for e in nm.path.events)
                fresh = nm.path.holds(f"{norm(n)} in {reg}", False)
                if not added:
                    reg_msgs.add(f"field name `{pretty(n)}` is not registered in {pretty(reg)}: a later assignment of another "
                                 f"object to the same field is not detected and two objects carry the same name")
                elif not fresh:
                    reg_msgs.add(f"object named without checking that `{pretty(n)}` is not already a registered field")
                else:
                    reg_ok.add(f"`{pretty(n)}` checked against and added to {pretty(reg)}")
            elif how == 'list slot (index walk)':
                r.evaluations += 1
                ev = [e for e in nm.path.events if e.kind == 'sub' and same(e.value, nm.X)][0]
                want = f"{norm(ev.obj)}[{norm(ev.key)}] is None"
                if nm.path.holds(want, True):
                    reg_ok.add("list slot asserted empty before it is filled")
                else:
                    reg_msgs.add("list slot is overwritten without checking that it is empty: the previous occupant keeps "
                                 "the same name")
        cons = f"{pretty(norm(st))} :: registration"
        for m_ in sorted(reg_msgs):
            r.bad(fa.mod, fa.qual, cons, m_, st.lineno)
        if not reg_msgs:
            for g in sorted(reg_ok):
                r.ok(fa.mod, fa.qual, f"{cons}: {g}")
    # the rejecting paths of the setattr hook
    fa = analyse(repo, NAMED, 'NamedObject.__setattr_for_elaborate__')
    me = fa.me
    a = [x.arg for x in fa.func.args.args]
    if len(a) != 3:
        raise AnalysisError("anchor: __setattr_for_elaborate__(s, name, obj)")
    nme, obj = a[1], a[2]
    reg = f"{me}._dsl.NamedObject_fields"
    name_stmts = _own_stores(fa.func, 'full_name')
    by_if = {}
    for p in fa.paths:
        for c in p.conds:
            for t, pol in c.atoms():
                if norm(t) == f"{nme} in {reg}" and pol:
                    by_if.setdefault(id(c.node), (c.node, []))[1].append(p)
    for _, (node, paths) in sorted(by_if.items(), key=lambda kv: kv[1][0].lineno):
        arms += 1
        cons = f"if {norm(node.test)}: (field already registered)"
        msgs = set()
        for p in paths:
            r.evaluations += 1
            if p.status == 'raise':
                if not (isinstance(p.exc, ast.Call) and norm(p.exc.func) == 'FieldReassignError'):
                    msgs.add(f"re-assignment raises `{pretty(p.exc)}`, not FieldReassignError")
            elif p.status == 'return':
                if not (p.holds(f"getattr({me}, {nme}) is {obj}", True) or p.holds(f"{me}.__dict__[{nme}] is {obj}", True)):
                    msgs.add("re-assignment returns silently although the stored object is not the very same object")
            else:
                msgs.add("a path continues to (re)name an object although the field name is already registered: "
                         "the first object keeps the same full name (names no longer unique)")
        for m_ in sorted(msgs):
            r.bad(fa.mod, fa.qual, cons, m_, node.lineno)
        if not msgs:
            r.ok(fa.mod, fa.qual, cons)
    if arms != len(name_stmts):
        r.bad(fa.mod, fa.qual, 'reassign checks per naming arm',
              f"{len(name_stmts)} naming arms but {arms} re-assignment checks: one arm accepts a second object under an "
              f"existing field name", fa.func.lineno)
    # _add_component, attribute branch: slot must not exist
    fc = analyse(repo, COMP, 'Component._add_component')
    found = False
    for p in fc.paths:
        for e in p.events:
            if e.kind == 'call' and e.bound is None:
                s = _setattr_like(fc, e.call)
                if s is not None:
                    found = True
                    r.evaluations += 1
                    cons = pretty(norm(e.call))
                    if p.holds(f"hasattr({norm(s[0])}, {norm(s[1])})", False):
                        r.ok(fc.mod, fc.qual, cons)
                    else:
                        r.bad(fc.mod, fc.qual, cons, "field added without asserting that the parent has no such field",
                              e.node.lineno)
                    break
        if found:
            break
    if not found:
        raise AnalysisError("anchor vanished: setattr in Component._add_component")
    _floor(r, 6, repo)
    return r


# ---------------------------------------------------------------------------
def rule_siblings(repo):
    r = RuleResult('R-C14-siblings', "sibling naming paths (attribute / list element / _add_component; struct field / slice) "
                                     "assign the same set of _dsl metadata fields")
    groups = {'named': [], 'lazy': []}
    for fa, st, nms in _analysed(repo):
        must, may, how_ = None, set(), None
        for nm in nms:
            if nm.kind != 'prefixed':
                continue
            try:
                C, steps, how = resolve_storage(nm)
            except Verdict:
                # storage broken (reported by name-storage): the field sets are still compared; an object created by a
                # call inside the naming function is a lazily created one
                dx = fa.d(nm.X)
                how = 'lazy?' if dx is not None and dx.kind == 'call' else 'named?'
            f = nm.fields()
            must = set(f) if must is None else (must & f)
            may |= f
            how_ = how
        if must is None:
            continue
        lazy = ('__dict__' in how_) or how_.startswith('appended') or how_ == 'lazy?'
        groups['lazy' if lazy else 'named'].append((fa, st, must, may, how_))
    g = groups['named']
    if len(g) < 3:
        raise AnalysisError(f"expected three sibling naming sites for NamedObjects, found {len(g)}")
    ref = set.union(*[x[2] for x in g])
    refmay = set.union(*[x[3] for x in g])
    for fa, st, must, may, how in g:
        r.evaluations += 1
        cons = f"{pretty(norm(st))} :: fields always assigned"
        miss = sorted(ref - must)
        missmay = sorted((refmay - ref) - may)
        if miss:
            r.bad(fa.mod, fa.qual, cons, f"this arm does not assign _dsl.{', _dsl.'.join(miss)} which its sibling arms assign "
                  f"(objects named through this arm lack the metadata: AttributeError or stale values later)", st.lineno)
        elif missmay:
            r.bad(fa.mod, fa.qual, cons, f"this arm never updates _dsl.{', _dsl.'.join(missmay)} which its sibling arms "
                  f"update (e.g. set_param overrides are not pushed to objects named through this arm)", st.lineno)
        else:
            r.ok(fa.mod, fa.qual, f"{cons}: {sorted(must)}")
    need = {'full_name', 'my_name', 'parent_obj', 'top_level_signal', 'elaborate_top'}
    gl = groups['lazy']
    if len(gl) < 2:
        raise AnalysisError(f"expected lazily created signal naming sites, found {len(gl)}")
    for fa, st, must, may, how in gl:
        r.evaluations += 1
        cons = f"{pretty(norm(st))} :: fields always assigned"
        miss = sorted(need - must)
        if miss:
            r.bad(fa.mod, fa.qual, cons, f"lazily created signal lacks _dsl.{', _dsl.'.join(miss)}", st.lineno)
        else:
            r.ok(fa.mod, fa.qual, f"{cons}: {sorted(must)}")
    # arms inside one function must agree exactly
    byf = {}
    for x in gl:
        byf.setdefault(x[0].qual, []).append(x)
    for q, xs in byf.items():
        if len(xs) > 1 and len({frozenset(x[2]) for x in xs}) != 1:
            r.bad(xs[0][0].mod, q, 'arms of one function', "the arms of this function assign different metadata fields: "
                  + ' / '.join(str(sorted(x[2])) for x in xs), xs[0][1].lineno)
    _floor(r, 6, repo)
    return r


# ---------------------------------------------------------------------------
def _returns(fa):
    return [p for p in fa.paths if p.status == 'return']


def _simple_getter(r, repo, rel, qual, want_attr, what):
    fa = analyse(repo, rel, qual)
    me = fa.me
    rets = [p for p in _returns(fa) if not any(c.kind == 'except' for c in p.conds)]
    want = f"{me}._dsl.{want_attr}"
    r.evaluations += 1
    if rets and all(norm(p.retval) == want for p in rets):
        r.ok(fa.mod, fa.qual, f"returns {want}")
    else:
        r.bad(fa.mod, fa.qual, f"return {', '.join(sorted({pretty(p.retval) for p in rets}))}",
              f"{what} must return {want}, the metadata that the naming sites keep consistent with the name", fa.func.lineno)


def rule_api(repo):
    r = RuleResult('R-C14-api', "repr / parent / field-name / host / top-level-signal accessors return the metadata that is "
                                "kept consistent with the name; the root is named by a constant the consumers agree with")
    _simple_getter(r, repo, NAMED, 'NamedObject.__repr__', 'full_name', 'repr()')
    _simple_getter(r, repo, NAMED, 'NamedObject.get_parent_object', 'parent_obj', 'get_parent_object()')
    _simple_getter(r, repo, NAMED, 'NamedObject.get_field_name', 'my_name', 'get_field_name()')
    _simple_getter(r, repo, CONN, 'Const.get_parent_object', 'parent_obj', 'get_parent_object()')
    _simple_getter(r, repo, COMP, 'Component.get_component_level', 'level', 'get_component_level()')
    # Signal predicates
    for qual, wants, what in (
            ('Signal.is_sliced_signal', ('{me}._dsl.slice is not None',), 'is_sliced_signal()'),
            ('Signal.is_top_level_signal', ('{me}._dsl.top_level_signal is {me}', '{me} is {me}._dsl.top_level_signal'),
             'is_top_level_signal()')):
        fa = analyse(repo, CONN, qual)
        rets = _returns(fa)
        r.evaluations += 1
        ws = [w.format(me=fa.me) for w in wants]
        if len(rets) == 1 and norm(rets[0].retval) in ws:
            r.ok(fa.mod, fa.qual, f"returns {ws[0]}")
        else:
            r.bad(fa.mod, fa.qual, f"return {', '.join(pretty(p.retval) for p in rets)}", f"{what} must be `{ws[0]}`",
                  fa.func.lineno)
    fa = analyse(repo, CONN, 'Signal.get_top_level_signal')
    me = fa.me
    tls = f"{me}._dsl.top_level_signal"
    msgs = []
    for p in _returns(fa):
        r.evaluations += 1
        rv = p.retval
        if isinstance(rv, ast.IfExp):
            alts = [(rv.body, rv.test, True), (rv.orelse, rv.test, False)]
        else:
            alts = [(rv, None, None)]
        for val, test, pol in alts:
            conds = list(p.atoms())
            if test is not None:
                conds += Cond(test, pol, 'ifexp', None).atoms()
            none_known = any(norm(t) == f"{tls} is None" and q for t, q in conds)
            if norm(val) == tls:
                continue
            if norm(val) == me and none_known:
                continue
            msgs.append(f"returns `{pretty(val)}` {'when the recorded top-level signal is not None' if norm(val) == me else ''}")
    if msgs or not _returns(fa):
        r.bad(fa.mod, fa.qual, 'return value', f"get_top_level_signal() must return the recorded top-level signal: {msgs}",
              fa.func.lineno)
    else:
        r.ok(fa.mod, fa.qual, f"returns {tls} (self only when none is recorded)")
    # constructor: a fresh signal is its own top-level signal and is not a slice
    fa = analyse(repo, CONN, 'Signal.__init__')
    me = fa.me
    for fld, want in (('top_level_signal', me), ('slice', 'None')):
        r.evaluations += 1
        vals = set()
        for p in fa.paths:
            if p.status == 'raise':
                continue
            v = [e for e in p.events if e.kind == 'attr' and e.attr == fld and norm(e.obj) == f"{me}._dsl"]
            vals.add(norm(v[-1].value) if v else 'unset')
        if vals == {want}:
            r.ok(fa.mod, fa.qual, f"{me}._dsl.{fld} = {want}")
        else:
            r.bad(fa.mod, fa.qual, f"{me}._dsl.{fld}", f"a freshly constructed signal must have {fld} = {want}, found "
                  f"{sorted(vals)}", fa.func.lineno)
    # host walk
    fa = analyse(repo, CONN, 'Connectable.get_host_component')
    me = fa.me
    r.evaluations += 1
    msgs = []
    walks = 0
    for p in fa.paths:
        if p.status != 'return':
            continue
        rv = p.retval
        if norm(rv) == f"{me}._dsl.host":
            st_ = [e for e in p.events if e.kind == 'attr' and e.attr == 'host' and norm(e.obj) == f"{me}._dsl"]
            if not st_:
                continue      # cached value
            rv = st_[-1].value
        d = fa.d(rv)
        if d is None or d.kind != 'loop' or not isinstance(d.node, ast.While):
            msgs.append(f"returns `{pretty(rv)}`, which is not the result of the walk towards the enclosing component")
            continue
        walks += 1
        L = d.node
        v = d.name
        if norm(L.test) != f"not {v}.is_component()":
            msgs.append(f"host walk continues while `{norm(L.test)}`; it must continue while the object is not a component")
        if not (len(L.body) == 1 and norm(L.body[0]) in (f"{v} = {v}.get_parent_object()", f"{v} = {v}._dsl.parent_obj")):
            msgs.append(f"host walk step `{norm(L.body)}` does not move to the parent object of the current object")
        if d.pre is None or norm(d.pre) not in (me, f"{me}.get_parent_object()", f"{me}._dsl.parent_obj"):
            msgs.append(f"host walk starts at `{pretty(d.pre) if d.pre is not None else '?'}`")
    if not walks and not msgs:
        msgs.append("no walk along parent objects found")
    if msgs:
        for m_ in sorted(set(msgs)):
            r.bad(fa.mod, fa.qual, 'host walk', m_, fa.func.lineno)
    else:
        r.ok(fa.mod, fa.qual, f"walks parent objects from {me} until is_component()")
    # is_component constants
    for rel, qual, want in ((CONN, 'Signal.is_component', 'False'), (CONN, 'Interface.is_component', 'False'),
                            (CONN, 'MethodPort.is_component', 'False'), (CONN, 'Const.is_component', 'False'),
                            (L1, 'ComponentLevel1.is_component', 'True')):
        fa = analyse(repo, rel, qual)
        rets = _returns(fa)
        r.evaluations += 1
        if len(rets) == 1 and norm(rets[0].retval) == want:
            r.ok(fa.mod, fa.qual, f"returns {want}", nontrivial=False)
        else:
            r.bad(fa.mod, fa.qual, 'return value', f"is_component() must be {want} here (host walk terminates at components only)",
                  fa.func.lineno)
    # root name and prefix-stripping consumers
    root = None
    for fa, st, nms in _analysed(repo):
        for nm in nms:
            if nm.kind == 'root':
                root = ''.join(t.text for t in nm.toks)
    if root is None:
        raise AnalysisError("anchor vanished: root naming site")
    n_cons = 0
    for rel in repo.py_files('pymtl3'):
        if 'repr(' not in repo.src(rel):
            continue
        m = repo.mod(rel)
        for n in ast.walk(m.tree):
            if isinstance(n, ast.Subscript) and isinstance(n.value, ast.Call) and norm(n.value.func) == 'repr' \
                    and isinstance(n.slice, ast.Slice) and n.slice.upper is None and n.slice.step is None \
                    and isinstance(n.slice.lower, ast.Constant) and isinstance(n.slice.lower.value, int):
                k = n.slice.lower.value
                n_cons += 1
                r.evaluations += 1
                # the literal text in front of the stripped name tells whether the dot is stripped as well
                before = _literal_before(n)
                allowed = {len(root), len(root) + 1}
                if before is not None:
                    allowed = {len(root) + 1} if before.endswith('.') else {len(root)}
                fq = qualname(n) or '<module>'
                if k in allowed:
                    r.ok(m, fq, f"{norm(n)} strips a root name of length {len(root)}"
                         + ('' if before is None else f" after {before!r}"), nontrivial=False)
                else:
                    r.bad(m, fq, norm(n), f"strips {k} characters from a full name whose root is {root!r}"
                          + ('' if before is None else f" and puts it after {before!r}") + ": the re-rooted name "
                          "does not evaluate to the object (the separating dot is lost or doubled)", n.lineno)
    if n_cons < 3:
        raise AnalysisError("anchor vanished: consumers that re-root names (repr(x)[k:])")
    _floor(r, 29, repo)
    return r


# ---------------------------------------------------------------------------
def rule_collect(repo):
    r = RuleResult('R-C14-collect', "the object collectors traverse exactly the storage kinds used by the naming sites "
                                    "(public str keys, slice-tuple keys, nested lists) so every collected object has a name")
    # storage kinds used by the naming sites
    kinds = set()
    for fa, st, nms in _analysed(repo):
        for nm in nms:
            if nm.kind != 'prefixed' or _dead_arm(repo, nm):
                continue
            try:
                C, steps, how = resolve_storage(nm)
            except Verdict:
                continue
            for s in steps:
                kinds.add({'attr': 'str', 'slice': 'tuple', 'idx*': 'list'}[s.kind])
    if kinds != {'str', 'tuple', 'list'}:
        raise AnalysisError(f"storage kinds of the naming sites: {sorted(kinds)}")
    # the hook's filter on names
    hook = analyse(repo, NAMED, 'NamedObject.__setattr_for_elaborate__')
    nme = hook.func.args.args[1].arg
    hook_filters = set()
    for p in hook.paths:
        if any(e.kind == 'attr' and e.attr == 'full_name' for e in p.events):
            fs = [(t, pol) for t, pol in p.atoms() if _mentions_only(t, nme) and not _is_membership(t)]
            hook_filters.add(tuple(sorted((norm(t), pol) for t, pol in fs)))
    if len(hook_filters) != 1:
        raise AnalysisError(f"hook filters differ between naming paths: {hook_filters}")
    hook_filter = [(ast.parse(t, mode='eval').body, pol) for t, pol in hook_filters.pop()]
    samples = ['x', '_x', '__x', 'x_', 'a_b', '_', 'X1']
    # entry condition of the hook's list arm: the collectors descend into EVERY list stored under a public name, so the
    # arm that names list elements may depend on the value being a (non-empty) list only -- not on particular elements
    entry = {}
    for fa_, st_, nms in _analysed(repo):
        for nm in nms:
            if nm.kind != 'prefixed':
                continue
            try:
                C, steps, how = resolve_storage(nm)
            except Verdict:
                continue
            if how != 'list element (BFS)':
                continue
            root = _memo(_bfs(fa_, _pop_of(fa_, nm.X)[0]), 'check_indexed')[0]
            rt = norm(root)
            for c in nm.path.conds:
                if c.kind not in ('if', 'assert') or any(c.node is l for l in nm.ev.loops):
                    continue
                for t, pol in c.atoms():
                    if not any(isinstance(x, ast.Name) and x.id == rt for x in ast.walk(t)) or _is_membership(t):
                        continue
                    txt = norm(t)
                    if (txt == f"isinstance({rt}, list)" and pol) or (txt == rt and pol) or \
                            (txt in (f"len({rt}) > 0", f"len({rt}) != 0", f"len({rt}) >= 1") and pol) or \
                            (txt == f"len({rt}) == 0" and not pol) or \
                            (txt.startswith(f"isinstance({rt}, ") and not pol):
                        entry.setdefault((fa_, txt), None)
                    elif pol and isinstance(t, ast.Call) and norm(t.func) == 'any' and len(t.args) == 1 \
                            and isinstance(t.args[0], (ast.GeneratorExp, ast.ListComp)) and len(t.args[0].generators) == 1 \
                            and norm(t.args[0].generators[0].iter) == rt and not t.args[0].generators[0].ifs \
                            and isinstance(t.args[0].elt, ast.Call) and norm(t.args[0].elt.func) == 'isinstance' \
                            and {'NamedObject', 'list'} <= {x.id for x in ast.walk(t.args[0].elt.args[1]) if isinstance(x, ast.Name)}:
                        entry.setdefault((fa_, txt), None)     # a list without any NamedObject / list has nothing to name
                    elif any(isinstance(x, ast.Subscript) and norm(x.value) == rt for x in ast.walk(t)):
                        entry[(fa_, txt)] = (f"list elements are named only when `{txt}` holds, i.e. depending on one particular "
                                             f"element, but the collectors descend into every list: in `s.x = [ None, Wire() ]` or "
                                             f"`s.y = [ 1, [ Wire() ] ]` the wire is collected (all_signals / all_named_objects) yet "
                                             f"never named -- repr() is not a hierarchical name and passes fail with "
                                             f"NotElaboratedError", c.node.lineno)
                    else:
                        raise AnalysisError(f"{fa_.qual}: list-arm entry condition outside the recognised shapes: {txt}")
    if not entry and not _cache(repo).get('broken'):
        raise AnalysisError("anchor vanished: entry condition of the list arm of the setattr hook")
    for (fa_, txt), bad in sorted(entry.items(), key=lambda kv: kv[0][1]):
        r.evaluations += 1
        if bad:
            r.bad(fa_.mod, fa_.qual, f"list arm entered when {txt}", bad[0], bad[1])
        else:
            r.ok(fa_.mod, fa_.qual, f"list arm entered when {txt}", nontrivial=False)

    def accepts(filt, var, s):
        return all(bool(Evaluator({var: s}, arith=True, leaf=_str_leaf({var: s})).ev(t)) == pol for t, pol in filt)
    # the local collector (get_child_components / get_*_ports / get_wires / get_local_object_filter) lists the objects a
    # component hosts directly: public str keys and lists to any depth (slices are not local objects)
    for rel_, qual, kinds_ in ((NAMED, 'NamedObject._collect_all_single', ('str', 'tuple', 'list')),
                               (NAMED, 'NamedObject._collect_all', ('str', 'tuple', 'list')),
                               (COMP, 'Component._collect_objects_local', ('str', 'list'))):
        fa = analyse(repo, rel_, qual)
        seen = {'str': None, 'tuple': None, 'list': None}
        free = {'str': False, 'tuple': False, 'list': False}     # some push of that kind does not need the filter to accept
        pushes = []      # (key symbol text or None, [(condition on the key, polarity)], needs the filter to accept)
        fparam = fa.func.args.args[1].arg if len(fa.func.args.args) > 1 else None
        for p in fa.paths:
            accepted_only = any(pol and any(isinstance(x, ast.Name) and x.id == fparam for x in ast.walk(t))
                                for t, pol in p.atoms())
            for e in p.events:
                if not (e.kind == 'call' and e.bound is None and isinstance(e.call.func, ast.Attribute)
                        and e.call.func.attr in ('append', 'extend') and len(e.call.args) == 1):
                    continue
                arg = e.call.args[0]
                d = fa.d(arg)
                if e.call.func.attr == 'extend':
                    # recursion to any depth: the list popped from the worklist is pushed back onto that same worklist
                    popped = d is not None and d.kind == 'call' and isinstance(d.expr, ast.Call) \
                        and isinstance(d.expr.func, ast.Attribute) and d.expr.func.attr in POPS \
                        and same(d.expr.func.value, e.call.func.value)
                    if popped and any(norm(t) == f"isinstance({norm(arg)}, list)" and pol for t, pol in p.atoms()):
                        seen['list'] = seen['list'] or []
                        free['list'] = free['list'] or not accepted_only
                    continue
                if d is None or d.kind != 'iter' or d.index != (1,):
                    continue
                src = d.expr
                if not (isinstance(src, ast.Call) and isinstance(src.func, ast.Attribute) and src.func.attr == 'items'
                        and _dict_of(src.func.value) is not None):
                    continue
                keysym = [ast.Name(id=sid, ctx=ast.Load()) for sid, dd in fa.ex.defs.items()
                          if dd.kind == 'iter' and dd.index == (0,) and dd.node is d.node and same(dd.expr, src)]
                # the push condition on the key, evaluated below over the key kinds (public str, private str, tuple)
                kn = [norm(k) for k in keysym]
                conds_k = [(c.test, c.polarity) for c in p.conds if any(k in norm(c.test) for k in kn)]
                key = next((k for k in kn if any(k in norm(t) for t, _ in conds_k)), None)
                pushes.append((key, conds_k, accepted_only))
        for kind_, smp in (('str', samples), ('tuple', [(1, 3)])):
            hit = [pu for pu in pushes for x in smp if _key_reaches(pu, x)]
            if hit:
                seen[kind_] = []
                free[kind_] = any(not pu[2] for pu in hit)
        # descending must not depend on the verdict of the filter, and the worklist loop must visit every element
        r.evaluations += 1
        dep = [k for k in kinds_ if seen[k] is not None and not free[k]]
        cons = "descent independent of the filter verdict"
        if dep:
            r.bad(fa.mod, fa.qual, cons, f"the children of an object ({', '.join(dep)} storage) are pushed on the worklist only "
                  f"when `{fparam}` accepted the object itself: accepted descendants of a rejected node are never returned "
                  f"(a Signal filter on a component returns nothing; replace_component leaves interfaces of the old "
                  f"subtree registered)", fa.func.lineno)
        else:
            r.ok(fa.mod, fa.qual, cons)
        esc = [n for L in _worklist_loops(fa) for n in _loop_escapes(L)]
        cons = "worklist loop visits every element"
        if esc:
            r.bad(fa.mod, fa.qual, cons, f"the worklist loop is left by `{norm(esc[0])}` while elements may remain: objects "
                  f"still on the worklist are never collected", esc[0].lineno)
        else:
            r.ok(fa.mod, fa.qual, cons, nontrivial=False)
        for kind in kinds_:
            r.evaluations += 1
            cons = f"traversal of {kind} storage"
            if seen[kind] is None:
                if kind == 'list':
                    r.bad(fa.mod, fa.qual, cons, "lists are not traversed through a worklist that receives every popped list "
                          "again (recursion to any depth, like the naming BFS): objects in 2-D or deeper lists keep their "
                          "names and parent pointers but are not listed by this collector (sub-tree unreachable top-down)",
                          fa.func.lineno)
                else:
                    r.bad(fa.mod, fa.qual, cons, f"objects stored under {kind} keys are named but never collected "
                          f"(or collected unconditionally without the kind test): the collector misses them", fa.func.lineno)
                continue
            if kind == 'str':
                bad = None
                for smp in samples:
                    r.evaluations += 1
                    c = any(_key_reaches(pu, smp) for pu in pushes)
                    h = accepts(hook_filter, nme, smp)
                    if c and not h:
                        bad = (f"attribute named {smp!r} is collected but the setattr hook never names it: repr() of the "
                               f"collected object is not a hierarchical name")
                    elif h and not c:
                        bad = f"attribute named {smp!r} is named by the hook but never collected"
                if bad:
                    r.bad(fa.mod, fa.qual, cons, bad, fa.func.lineno)
                else:
                    r.ok(fa.mod, fa.qual, f"{cons}: same name filter as the setattr hook")
            elif kind == 'tuple':
                r.ok(fa.mod, fa.qual, cons)
            else:
                r.ok(fa.mod, fa.qual, cons)
    _floor(r, 18, repo)
    return r


def _key_reaches(push, sample):
    """is the push reachable for a __dict__ key with this value (the conditions on the key evaluated on the sample)"""
    key, conds, _ = push
    if key is None:
        return True
    env = {key: sample}
    tags = {'str': lambda v: isinstance(v, str), 'tuple': lambda v: isinstance(v, tuple), 'int': lambda v: isinstance(v, int)}
    for t, pol in conds:
        try:
            v = Evaluator(env, arith=True, leaf=_str_leaf(env), isinstance_tags=tags).ev(t)
        except (TypeError, IndexError, AttributeError):
            return False      # the test itself fails on this kind of key: the push is not reached
        if bool(v) != pol:
            return False
    return True


def _loop_escapes(L):
    """break statements that leave loop L and return statements inside it"""
    out = []

    def go(stmts, inner):
        for st in stmts:
            if isinstance(st, (ast.FunctionDef, ast.AsyncFunctionDef, ast.ClassDef)):
                continue
            if isinstance(st, ast.Return):
                out.append(st)
            elif isinstance(st, ast.Break) and not inner:
                out.append(st)
            elif isinstance(st, (ast.For, ast.While)):
                go(st.body, True)
                go(st.orelse, inner)
            else:
                for fld in ('body', 'orelse', 'finalbody'):
                    go(getattr(st, fld, None) or [], inner)
                for h in getattr(st, 'handlers', None) or []:
                    go(h.body, inner)
    go(L.body, False)
    return out


def _worklist_loops(fa):
    """loops of the function in whose body the loop's own worklist is popped"""
    out = []
    for p in fa.paths:
        for e in p.events:
            if e.kind == 'call' and e.bound is not None and isinstance(e.call.func, ast.Attribute) \
                    and e.call.func.attr in POPS and e.loops and not any(e.loops[-1] is x for x in out):
                out.append(e.loops[-1])
    return out


def _literal_before(n):
    """literal text immediately preceding expression n in a concatenation / f-string, or None"""
    p = parent(n)
    if isinstance(p, ast.FormattedValue):
        js = parent(p)
        if isinstance(js, ast.JoinedStr):
            i = [k for k, v in enumerate(js.values) if v is p][0]
            if i > 0 and isinstance(js.values[i - 1], ast.Constant):
                return str(js.values[i - 1].value)
        return None
    if isinstance(p, ast.BinOp) and isinstance(p.op, ast.Add) and p.right is n:
        l = p.left
        if isinstance(l, ast.BinOp) and isinstance(l.op, ast.Add):
            l = l.right
        if isinstance(l, ast.Constant) and isinstance(l.value, str):
            return l.value
    return None


def _mentions_only(t, name):
    names = {n.id for n in ast.walk(t) if isinstance(n, ast.Name)}
    return name in names and names <= {name, 'str', 'isinstance'}


def _is_membership(t):
    return isinstance(t, ast.Compare) and isinstance(t.ops[0], (ast.In, ast.NotIn))


def _str_leaf(env):
    def leaf(e):
        if isinstance(e, ast.Subscript) and isinstance(e.value, ast.Name) and e.value.id in env:
            try:
                k = ast.literal_eval(e.slice)
            except Exception:
                return NotImplemented
            if not isinstance(k, int):
                return NotImplemented
            s = env[e.value.id]
            return s[k] if -len(s) <= k < len(s) else ''
        if isinstance(e, ast.Call) and isinstance(e.func, ast.Attribute) and e.func.attr == 'startswith' \
                and isinstance(e.func.value, ast.Name) and e.func.value.id in env and len(e.args) == 1 \
                and isinstance(e.args[0], ast.Constant):
            v = env[e.func.value.id]
            if not isinstance(v, str):
                raise AttributeError('startswith')
            return v.startswith(e.args[0].value)
        return NotImplemented
    return leaf


# ---------------------------------------------------------------------------
DSL_FILES = ('pymtl3/dsl/NamedObject.py', 'pymtl3/dsl/Component.py', 'pymtl3/dsl/ComponentLevel1.py',
             'pymtl3/dsl/ComponentLevel2.py', 'pymtl3/dsl/ComponentLevel3.py', 'pymtl3/dsl/ComponentLevel4.py',
             'pymtl3/dsl/ComponentLevel5.py', 'pymtl3/dsl/ComponentLevel6.py', 'pymtl3/dsl/ComponentLevel7.py')
NAMING_FIELDS = {'my_name', 'full_name', 'parent_obj', 'level', 'elaborate_top', '_my_name', '_my_indices', 'NamedObject_fields'}
SUBSTRING_METHODS = {'startswith', 'endswith', 'find', 'rfind', 'index', 'rindex', 'count', 'partition', 'rpartition'}
COLLECTORS = {'_collect_objects_local', '_collect_all', '_collect_all_single', 'get_child_components', 'get_input_value_ports',
              'get_output_value_ports', 'get_wires', 'get_local_object_filter', 'get_all_object_filter', 'get_all_components'}
MUTATORS = ((COMP, 'Component._add_component'), (COMP, 'Component._delete_component'))


def _name_valued(e, tainted):
    """does the expression carry (part of) a hierarchical name: repr(x), x._dsl.full_name / my_name, get_field_name(),
    or a local derived from one"""
    for n in ast.walk(e):
        if isinstance(n, ast.Call) and isinstance(n.func, ast.Name) and n.func.id == 'repr':
            return True
        if isinstance(n, ast.Call) and isinstance(n.func, ast.Attribute) and n.func.attr == 'get_field_name':
            return True
        if isinstance(n, ast.Attribute) and n.attr in ('full_name', 'my_name') and isinstance(n.value, ast.Attribute) \
                and n.value.attr == '_dsl':
            return True
        if isinstance(n, ast.Name) and n.id in tainted:
            return True
    return False


def _is_name_string(e, tainted):
    """e itself is a name string (not a container of names)"""
    if isinstance(e, ast.Name):
        return e.id in tainted
    if isinstance(e, ast.Call) and isinstance(e.func, ast.Name) and e.func.id in ('repr', 'str'):
        return _name_valued(e, tainted)
    if isinstance(e, ast.Attribute) and e.attr in ('full_name', 'my_name'):
        return True
    if isinstance(e, (ast.JoinedStr, ast.BinOp, ast.Subscript)):
        return _name_valued(e, tainted)
    return False


def _substring_tests(func):
    """comparisons that decide something from a *part* of a hierarchical name (prefix / suffix / substring / slice)"""
    tainted = set()
    for _ in range(3):
        for n in ast.walk(func):
            if isinstance(n, ast.Assign) and _name_valued(n.value, tainted):
                for t in n.targets:
                    for x in ([t] if isinstance(t, ast.Name) else t.elts if isinstance(t, (ast.Tuple, ast.List)) else []):
                        if isinstance(x, ast.Name):
                            tainted.add(x.id)
    out = []
    for n in ast.walk(func):
        if isinstance(n, ast.Call) and isinstance(n.func, ast.Attribute) and n.func.attr in SUBSTRING_METHODS:
            if _name_valued(n.func.value, tainted) or any(_name_valued(a, tainted) for a in n.args):
                out.append(n)
        elif isinstance(n, ast.Compare):
            ops = [n.left] + list(n.comparators)
            for i, op in enumerate(n.ops):
                a, b = ops[i], ops[i + 1]
                if isinstance(op, (ast.In, ast.NotIn)) and _name_valued(a, tainted) and _is_name_string(b, tainted):
                    out.append(n)
                elif isinstance(op, (ast.Eq, ast.NotEq)) and any(
                        isinstance(x, ast.Subscript) and isinstance(x.slice, ast.Slice) and _name_valued(x.value, tainted)
                        for x in (a, b)):
                    out.append(n)
    return out


def _memos(cls_funcs):
    """[(func, field)] : a get_* query that stores its (collector-derived) answer on <self>._dsl"""
    out = []
    for f in cls_funcs:
        if not f.name.startswith('get_') or not f.args.args:
            continue
        me = f.args.args[0].arg
        calls_collector = any(isinstance(n, ast.Call) and isinstance(n.func, ast.Attribute) and n.func.attr in COLLECTORS
                              for n in ast.walk(f))
        if not calls_collector:
            continue
        for n in ast.walk(f):
            if isinstance(n, ast.Attribute) and isinstance(n.ctx, ast.Store) and isinstance(n.value, ast.Attribute) \
                    and n.value.attr == '_dsl' and norm(n.value.value) == me:
                out.append((f, n.attr))
    return out


_REPLACE_PROBE = """
def f( s, o ):
  return ast.parse( repr(o).replace( repr(s), "s" ) )
"""


def _relative_name_sites(func):
    """(good, bad): good = slices name[len(hostname)(+1):] (prefix removal by length) / removeprefix(hostname);
    bad = (node, why) for replace / strip / split of a name by another name (acts anywhere in the string) and for slices
    by something that is not the length of a name"""
    tainted = set()
    lens = set()
    for _ in range(3):
        for n in walk_no_nested(func):
            if isinstance(n, ast.Assign) and len(n.targets) == 1 and isinstance(n.targets[0], ast.Name):
                if _is_len_of_name(n.value, tainted, lens):
                    lens.add(n.targets[0].id)
                elif _name_valued(n.value, tainted):
                    tainted.add(n.targets[0].id)
    good, bad = [], []
    for n in walk_no_nested(func):
        if isinstance(n, ast.Call) and isinstance(n.func, ast.Attribute) and n.args and _is_name_string(n.func.value, tainted) \
                and _is_name_string(n.args[0], tainted):
            if n.func.attr == 'removeprefix':
                good.append(n)
            elif n.func.attr in ('replace', 'strip', 'lstrip', 'rstrip', 'split', 'rsplit', 'removesuffix'):
                bad.append((n, f"`.{n.func.attr}` of one hierarchical name by another acts anywhere in the string (or on a character "
                               f"set), not on the leading path: host s.a, object s.a.bus.a becomes s.bus instead of s.bus.a -- the "
                               f"relative name denotes another object; remove the host name at the front only"))
        elif isinstance(n, ast.Subscript) and isinstance(n.slice, ast.Slice) and _is_name_string(n.value, tainted) \
                and n.slice.lower is not None and not isinstance(n.slice.lower, ast.Constant):
            if n.slice.upper is None and n.slice.step is None and _is_len_of_name(n.slice.lower, tainted, lens) \
                    and norm(n.value) not in norm(n.slice.lower):
                good.append(n)
            else:
                bad.append((n, f"a hierarchical name is cut at `{norm(n.slice.lower)}`, which is not the length of the host's "
                               f"name (+1 for the dot): the relative name denotes another object"))
    return good, bad


def _is_len_of_name(e, tainted, lens):
    if isinstance(e, ast.BinOp) and isinstance(e.op, ast.Add):
        a, b = e.left, e.right
        if isinstance(a, ast.Constant):
            a, b = b, a
        return isinstance(b, ast.Constant) and b.value in (0, 1) and _is_len_of_name(a, tainted, lens)
    if isinstance(e, ast.Name):
        return e.id in lens
    return isinstance(e, ast.Call) and isinstance(e.func, ast.Name) and e.func.id == 'len' and len(e.args) == 1 \
        and _is_name_string(e.args[0], tainted)


_MEMO_PROBE = """
class C:
  def get_child_components( s, sort_key = None ):
    try:
      children = s._dsl.child_components
    except AttributeError:
      children = s._dsl.child_components = s._collect_objects_local( lambda x: True )
    return list( children )
"""
_PREFIX_PROBE = """
def get_all_object_filter( s, filt ):
  prefix = repr(s)
  return { x for x in s._dsl.elaborate_top._dsl.all_named_objects if repr(x).startswith( prefix ) and filt(x) }
"""


def rule_query(repo):
    r = RuleResult('R-C14-query', "names are written once (top-level naming only for a not yet constructed object); hierarchy "
                                  "queries decide containment structurally, never by a substring of a name, and keep no memo that "
                                  "the hierarchy-mutating API does not invalidate")
    # (a) write-once: self-naming stores are dominated by the not-yet-constructed test
    n_root = 0
    for fa, st, nms in _analysed(repo):
        if not any(nm.kind == 'root' for nm in nms):
            continue
        me = fa.me
        per = {}
        for p in fa.paths:
            for i, e in enumerate(p.events):
                if e.kind == 'attr' and e.attr in NAMING_FIELDS and norm(e.obj) == f"{me}._dsl":
                    r.evaluations += 1
                    guarded = any(c.at <= i and any(norm(t) == f"{me}._dsl.constructed" and not pol for t, pol in c.atoms())
                                  for c in p.conds)
                    per.setdefault(pretty(norm(e.node)), []).append((guarded, e.node.lineno))
        for cons, gl in sorted(per.items()):
            n_root += 1
            if all(g for g, _ in gl):
                r.ok(fa.mod, fa.qual, cons)
            else:
                r.bad(fa.mod, fa.qual, cons, f"top-level naming metadata is (re)assigned on a path where `{me}._dsl.constructed` has "
                      f"not been tested false: elaborate() on an already elaborated sub-component renames it to the root name "
                      f"(duplicate name, parent/level lost)", gl[0][1])
    if n_root < 5:
        raise AnalysisError("anchor vanished: top-level naming stores in _elaborate_construct")
    # (b) + (c) over the query API of the component classes
    for probe, finder in ((_PREFIX_PROBE, lambda t: _substring_tests(t.body[0])),
                          (_MEMO_PROBE, lambda t: _memos([x for x in t.body[0].body if isinstance(x, ast.FunctionDef)]))):
        if not finder(ast.parse(probe)):
            raise AnalysisError("R-C14-query: embedded positive example not recognised")
    nfun = 0
    memos = []
    for rel in DSL_FILES:
        if not repo.exists(rel):
            continue
        m = repo.mod(rel)
        for cname, c in sorted(m.classes.items()):
            if not (cname == 'NamedObject' or cname.startswith('Component')):
                continue
            funcs = [f for f in m._defs_in(c.body) if isinstance(f, ast.FunctionDef)]
            for f in funcs:
                nfun += 1
                r.evaluations += 1
                for n in _substring_tests(f):
                    r.bad(m, f"{cname}.{f.name}", norm(n), "a prefix / suffix / substring / slice of a hierarchical name is "
                          "compared: names are dotted paths with indices (`s.reg` is a prefix of `s.reg_next`, `s.a[1]` of "
                          "`s.a[10]`), so this is not a containment test -- use the parent chain or a subtree walk", n.lineno)
            for f, fld in _memos(funcs):
                memos.append((m, cname, f, fld))
    if nfun < 80:
        raise AnalysisError(f"anchor vanished: query API of the component classes ({nfun} methods found)")
    r.ok(repo.mod(COMP), '<dsl component classes>', f"no name-substring test in {nfun} methods of NamedObject / Component*")
    for m, cname, f, fld in memos:
        for rel, qual in MUTATORS:
            mf = repo.mod(rel).get_func(qual)
            inval = any(isinstance(n, ast.Attribute) and n.attr == fld and isinstance(n.ctx, (ast.Store, ast.Del))
                        for n in ast.walk(mf))
            cons = f"memo _dsl.{fld} vs {qual}"
            if inval:
                r.ok(m, f"{cname}.{f.name}", cons)
            else:
                r.bad(m, f"{cname}.{f.name}", cons, f"the query memoises its answer in _dsl.{fld} but {qual} never deletes / "
                      f"recomputes it: after replace_component / delete the query still returns the removed object (same name "
                      f"as its live replacement, eval(name) is not it)", f.lineno)
    if not memos:
        r.ok(repo.mod(COMP), '<dsl component classes>', "no hierarchy query keeps a memo on _dsl (embedded example recognised)",
             nontrivial=False)
    # (d) host- / top-relative names are obtained from a full name by removing the host's name AT THE FRONT only
    if not _relative_name_sites(ast.parse(_REPLACE_PROBE).body[0])[1]:
        raise AnalysisError("R-C14-query: embedded positive example (replace) not recognised")
    nrel = 0
    rel_files = [x for x in repo.py_files('pymtl3/dsl') ] + ['pymtl3/passes/sim/GenDAGPass.py']
    for rel in rel_files:
        src = repo.src(rel)
        if 'repr' not in src and 'full_name' not in src:
            continue
        m = repo.mod(rel)
        for f in _functions(m.tree):
            good, bad = _relative_name_sites(f)
            for n in good:
                nrel += 1
                r.evaluations += 1
                r.ok(m, qualname(f), f"{norm(n)} :: host name removed at the front by its length")
            for n, why in bad:
                nrel += 1
                r.evaluations += 1
                r.bad(m, qualname(f), norm(n), why, n.lineno)
    if nrel < 3:
        raise AnalysisError(f"anchor vanished: sites that build host-relative names ({nrel} found)")
    _floor(r, 11, repo)
    return r


# ---------------------------------------------------------------------------
REGISTRY = 'all_named_objects'


def _derived_from(fa, v, X):
    """is the value v the object X itself, a display containing it, or the result of collecting X's subtree"""
    if same(v, X):
        return True
    if isinstance(v, (ast.Set, ast.List, ast.Tuple)) and any(same(e, X) for e in v.elts):
        return True
    if isinstance(v, ast.BinOp):
        return _derived_from(fa, v.left, X) or _derived_from(fa, v.right, X)
    d = fa.d(v)
    if d is None:
        return False
    if d.kind == 'unpack':
        return _derived_from(fa, d.expr, X)
    if d.kind == 'fresh' and isinstance(d.expr, (ast.Set, ast.List)):
        return any(same(e, X) for e in d.expr.elts)
    if d.kind in ('call', 'expr') and d.expr is not None:
        for n in ast.walk(d.expr):
            if isinstance(n, ast.Call) and isinstance(n.func, ast.Attribute) and n.func.attr.startswith('_collect_all') \
                    and same(n.func.value, X):
                return True
    return False


def _tables_receiving(fa, p, X):
    """design-wide tables `<top>._dsl.all_*` that receive X (or its collected subtree) on path p"""
    out = set()
    for e in p.events:
        if e.kind == 'call' and e.bound is None and isinstance(e.call.func, ast.Attribute) \
                and e.call.func.attr in ('add', 'update') and len(e.call.args) == 1:
            t = e.call.func.value
            if isinstance(t, ast.Attribute) and t.attr.startswith('all_') and isinstance(t.value, ast.Attribute) \
                    and t.value.attr == '_dsl' and _derived_from(fa, e.call.args[0], X):
                out.add(t.attr)
        elif e.kind == 'aug' and e.attr is not None and e.attr.startswith('all_') and isinstance(e.obj, ast.Attribute) \
                and e.obj.attr == '_dsl' and isinstance(e.node.op, ast.BitOr) and _derived_from(fa, e.value, X):
            out.add(e.attr)
        elif e.kind == 'attr' and e.attr.startswith('all_') and isinstance(e.obj, ast.Attribute) and e.obj.attr == '_dsl' \
                and _derived_from(fa, e.value, X):
            out.add(e.attr)
    return out


def rule_register(repo):
    r = RuleResult('R-C14-register', "every API that attaches named objects to an elaborated design (setattr hook installed "
                                     "outside elaboration) registers them in the design-wide table the name queries enumerate "
                                     "(all_named_objects), as elaboration's collection does")
    adders = []
    for rel in repo.py_files('pymtl3/dsl'):
        if '__setattr_for_elaborate__' not in repo.src(rel):
            continue
        m = repo.mod(rel)
        for f in _functions(m.tree):
            inst = [n for n in walk_no_nested(f) if isinstance(n, ast.Assign) and norm(n.value).endswith('__setattr_for_elaborate__')
                    and any(isinstance(t, ast.Attribute) and t.attr == '__setattr__' for t in n.targets)]
            if inst:
                adders.append((m, f, inst))
    if len(adders) < 3:
        raise AnalysisError(f"anchor vanished: functions that install the setattr hook ({len(adders)} found)")
    for m, f, inst in adders:
        q = qualname(f)
        ex = SymExec(f, max_paths=3000, focus=inst)
        paths = [p for p in ex.run() if p.status != 'raise']

        class _FA:       # the few members the helpers use
            pass
        fa = _FA()
        fa.ex, fa.func, fa.qual, fa.mod = ex, f, q, m
        fa.me = f.args.args[0].arg if f.args.args else None
        fa.d = ex.def_of
        is_elab = any(isinstance(n, ast.Call) and isinstance(n.func, ast.Attribute) and n.func.attr == '_construct'
                      and norm(n.func.value) == fa.me for n in walk_no_nested(f))
        per = {}
        for p in paths:
            hooked = False
            for e in p.events:
                if e.kind == 'attr' and e.attr == '__setattr__' and norm(e.value).endswith('__setattr_for_elaborate__'):
                    hooked = True
                elif e.kind == 'del' and e.attr == '__setattr__':
                    hooked = False
                elif hooked and e.kind == 'call' and e.bound is None:
                    X = None
                    sl = _setattr_like(fa, e.call)
                    if sl is not None:
                        X = sl[2]
                    elif isinstance(e.call.func, ast.Attribute) and e.call.func.attr == '_construct' and not e.call.args:
                        X = e.call.func.value
                    if X is None:
                        continue
                    r.evaluations += 1
                    cons = pretty(norm(e.node))
                    msgs = per.setdefault((cons, e.node.lineno), set())
                    if is_elab and norm(X) == fa.me:
                        continue          # elaboration of the top itself: registration is the driver's job (checked below)
                    tabs = _tables_receiving(fa, p, X)
                    if REGISTRY not in tabs:
                        also = f" (it is added to {', '.join(sorted(tabs))})" if tabs else ''
                        msgs.add(f"`{pretty(X)}` is attached to the elaborated design and named by the setattr hook but never "
                                 f"added to <top>._dsl.{REGISTRY}{also}: get_all_object_filter / name queries do not list it, "
                                 f"the set of names differs from a fresh elaboration of the same design")
        for (cons, line), msgs in sorted(per.items()):
            for m_ in sorted(msgs):
                r.bad(m, q, cons, m_, line)
            if not msgs:
                r.ok(m, q, f"{cons} :: registered in {REGISTRY}" if not is_elab else f"{cons} :: elaboration of the top")
    # elaboration drivers: constructing is followed by collecting the registry from the whole tree
    drivers = 0
    for rel in repo.py_files('pymtl3/dsl'):
        if '_elaborate_construct' not in repo.src(rel):
            continue
        m = repo.mod(rel)
        for f in _functions(m.tree):
            calls = [n for st in f.body for n in walk_no_nested(st) if isinstance(n, ast.Call) and isinstance(n.func, ast.Attribute)]
            if not any(c.func.attr == '_elaborate_construct' for c in calls):
                continue
            drivers += 1
            r.evaluations += 1
            fa = analyse(repo, rel, qualname(f))
            okp = True
            for p in fa.paths:
                if p.status == 'raise':
                    continue
                names = [e.call.func.attr for e in p.events if e.kind == 'call' and isinstance(e.call.func, ast.Attribute)]
                if '_elaborate_construct' in names:
                    i = names.index('_elaborate_construct')
                    if '_elaborate_collect_all_named_objects' not in names[i + 1:]:
                        okp = False
            if okp:
                r.ok(m, qualname(f), "construct, then collect all named objects")
            else:
                r.bad(m, qualname(f), "construct, then collect all named objects", f"elaboration constructs the hierarchy but "
                      f"does not (re)build {REGISTRY} afterwards: the design has names but no registry of them", f.lineno)
    fa = analyse(repo, NAMED, 'NamedObject._elaborate_collect_all_named_objects')
    r.evaluations += 1
    good = any(e.kind == 'attr' and e.attr == REGISTRY and norm(e.obj) == f"{fa.me}._dsl" and isinstance(fa.d(e.value), object)
               and fa.d(e.value) is not None and '_collect_all_single()' in norm(fa.d(e.value).expr)
               and norm(fa.d(e.value).expr).startswith(fa.me + '.')
               for p in fa.paths for e in p.events)
    if good:
        r.ok(fa.mod, fa.qual, f"{REGISTRY} = whole-tree collection without filter")
    else:
        r.bad(fa.mod, fa.qual, REGISTRY, f"{REGISTRY} is not the unfiltered collection of the whole tree", fa.func.lineno)
    if drivers < 2:
        raise AnalysisError("anchor vanished: elaboration drivers")
    _floor(r, 6, repo)
    return r


# dependency: re-elaborating the same construction code must yield the same names -- lambda / update blocks are re-parsed
# per elaboration and cached per defining class (decided by C02's cache-scope rule)
from rules.c02 import rule_cache_scope      # noqa: E402

def rule_sibling_links(repo):
    """get_sibling_slices() is part of a slice's hierarchy metadata: the siblings are the other slices of the signal the slice
    belongs to (its parent object).  Shared with C02 (R-overlap)."""
    from rules.c02 import rule_overlap
    return rule_overlap(repo)


def rule_registry_after_replace(repo):
    """after replace_component the registry of named objects holds exactly the live objects: everything the removed
    subtree contributed (signals AND method ports / interfaces) is taken out, otherwise stale '<deleted>' objects share names
    with their replacements.  Shared with C15 (R-C15-sites)."""
    from rules.c15 import rule_sites
    return rule_sites(repo)


RULES = [rule_name_storage, rule_cache, rule_meta, rule_reassign, rule_siblings, rule_api, rule_collect, rule_query, rule_register,
         rule_cache_scope, rule_registry_after_replace, rule_sibling_links]

# ---------------------------------------------------------------------------
# self-test of the checker (thorough tier)
def _m(name, file, old, new, rule=None, count=1):
    return dict(name=name, file=file, old=old, new=new, rule=rule, count=count)


_REASSIGN_OLD = """          if getattr( s, name ) is obj:
            return
          raise FieldReassignError("""

MUTANTS = [
    # --- NamedObject.__setattr_for_elaborate__, attribute arm
    _m('attr-name-without-dot', NAMED, 'ud.full_name = f"{sd.full_name}.{name}"', 'ud.full_name = f"{sd.full_name}_{name}"',
       'R-C14-name-storage'),
    _m('attr-name-relative-prefix', NAMED, 'ud.full_name = f"{sd.full_name}.{name}"', 'ud.full_name = f"{sd.my_name}.{name}"',
       'R-C14-name-storage'),
    _m('attr-parent-is-grandparent', NAMED, "        ud.parent_obj = s\n", "        ud.parent_obj = sd.parent_obj\n", 'R-C14-meta',
       count='first'),
    _m('attr-level-not-incremented', NAMED, "        ud.level      = sd.level + 1\n", "        ud.level      = sd.level\n",
       'R-C14-meta', count='first'),
    _m('attr-my-indices-dropped', NAMED, "        ud._my_indices = None\n", "        pass\n", 'R-C14'),
    _m('attr-named-then-early-return', NAMED, "        NamedObject._elaborate_stack.pop()\n\n      # ONLY LIST",
       "        NamedObject._elaborate_stack.pop()\n        return\n\n      # ONLY LIST", 'R-C14-name-storage'),
    _m('attr-not-registered', NAMED, "        fields.add( name )\n", "        pass\n", 'R-C14-reassign', count='first'),
    _m('attr-reassign-silently-accepted', NAMED, _REASSIGN_OLD, _REASSIGN_OLD.replace('if getattr( s, name ) is obj:', 'if True:'),
       'R-C14-reassign', count='first'),
    _m('stored-under-other-name', NAMED, "    super().__setattr__( name, obj )", "    super().__setattr__( name.lower(), obj )",
       'R-C14-name-storage'),
    # --- list arm
    _m('list-seed-index-off-by-one', NAMED, "Q = deque( (u, (i,)) for i, u in enumerate(obj) )",
       "Q = deque( (u, (i+1,)) for i, u in enumerate(obj) )", 'R-C14-name-storage'),
    _m('list-seed-enumerate-from-one', NAMED, "Q = deque( (u, (i,)) for i, u in enumerate(obj) )",
       "Q = deque( (u, (i,)) for i, u in enumerate(obj, 1) )", 'R-C14-name-storage'),
    _m('list-child-index-prepended', NAMED, "Q.extend( (v, indices+(i,)) for i, v in enumerate(u) )",
       "Q.extend( (v, (i,)+indices) for i, v in enumerate(u) )", 'R-C14-name-storage'),
    _m('list-children-of-wrong-list', NAMED, "Q.extend( (v, indices+(i,)) for i, v in enumerate(u) )",
       "Q.extend( (v, indices+(i,)) for i, v in enumerate(obj) )", 'R-C14-name-storage'),
    _m('list-nested-not-expanded', NAMED, "            Q.extend( (v, indices+(i,)) for i, v in enumerate(u) )", "            pass",
       'R-C14-name-storage'),
    _m('list-name-indices-reversed', NAMED, 'u_name = name + "".join( [ f"[{x}]" for x in indices ] )',
       'u_name = name + "".join( [ f"[{x}]" for x in reversed(indices) ] )', 'R-C14-name-storage'),
    _m('list-name-drops-indices', NAMED, 'ud.full_name = f"{sd.full_name}.{u_name}"', 'ud.full_name = f"{sd.full_name}.{name}"',
       'R-C14-name-storage'),
    _m('list-name-comma-separated', NAMED, 'u_name = name + "".join( [ f"[{x}]" for x in indices ] )',
       'u_name = name + ",".join( [ f"[{x}]" for x in indices ] )', 'R-C14-name-storage'),
    _m('list-level-not-incremented', NAMED, "            ud.level      = sd.level + 1\n", "            ud.level      = sd.level\n",
       'R-C14-meta'),
    _m('list-my-indices-shifted', NAMED, "            ud._my_indices = indices\n", "            ud._my_indices = indices[1:]\n",
       'R-C14-meta'),
    _m('list-arm-no-reassign-check', NAMED, "        fields = sd.NamedObject_fields\n        if name in fields:\n          if getattr( s, name ) is obj:\n"
       "            return\n          raise FieldReassignError(f\"The attempt to assign hardware construct to field {name} is illegal:\\n\"\n"
       "                                   f\" - top{repr(s)[1:]} already has field {name} with type {type(getattr( s, name ))}.\")\n"
       "        fields.add( name )\n\n        Q = deque(",
       "        fields = sd.NamedObject_fields\n        fields.add( name )\n\n        Q = deque(", 'R-C14-reassign'),
    _m('list-arm-decided-by-last-element', NAMED, "isinstance( obj[0], (NamedObject, list) )", "isinstance( obj[-1], (NamedObject, list) )",
       'R-C14-collect'),
    # --- root, repr, collectors
    _m('root-named-top', NAMED, 's._dsl.full_name     = "s"', 's._dsl.full_name     = "top"', 'R-C14'),
    _m('root-level-one', NAMED, "s._dsl.level         = 0", "s._dsl.level         = 1", 'R-C14-meta'),
    _m('repr-returns-field-name', NAMED, "      return s._dsl.full_name\n", "      return s._dsl.my_name\n", 'R-C14-api'),
    _m('parent-getter-wrong-field', NAMED, "      return s._dsl.parent_obj\n", "      return s._dsl.elaborate_top\n", 'R-C14-api'),
    _m('collector-skips-slices', NAMED, "          elif isinstance( name, tuple ): # name = [1:3]\n            stack.append( obj )",
       "          elif isinstance( name, tuple ): # name = [1:3]\n            pass", 'R-C14-collect', count='first'),
    _m('collector-takes-private-fields', NAMED, "            if name[0] != '_': # filter private variables\n              stack.append( obj )",
       "            if True:\n              stack.append( obj )", 'R-C14-collect', count='first'),
    _m('hook-skips-trailing-underscore', NAMED, "    if name[0] != '_': # filter private variables\n      sd = s._dsl",
       "    if name[0] != '_' and name[-1] != '_': # filter private variables\n      sd = s._dsl", 'R-C14-collect'),
    # --- Signal.__getattr__
    _m('field-cache-test-dropped', CONN, "    if name not in s.__dict__:\n", "    if True:\n", 'R-C14-cache'),
    _m('field-bfs-becomes-dfs', CONN, "u, indices, parent, parent_is_list = Q.popleft()", "u, indices, parent, parent_is_list = Q.pop()",
       'R-C14-name-storage'),
    _m('field-name-drops-indices', CONN, 'xd.full_name   = f"{sd.full_name}.{name}"+"".join([ f"[{y}]" for y in indices ])',
       'xd.full_name   = f"{sd.full_name}.{name}"', 'R-C14-name-storage'),
    _m('field-child-index-off-by-one', CONN, "Q.append( ( v, indices+[i], x, True ) )", "Q.append( ( v, indices+[i+1], x, True ) )",
       'R-C14-name-storage'),
    _m('field-children-to-grandparent', CONN, "Q.append( ( v, indices+[i], x, True ) )", "Q.append( ( v, indices+[i], parent, True ) )",
       'R-C14-name-storage'),
    _m('field-root-stored-under-other-key', CONN, "          parent.__dict__[ name ] = x", "          parent.__dict__[ name + '_' ] = x",
       'R-C14'),
    _m('field-parent-is-list', CONN, "          xd.parent_obj = s\n", "          xd.parent_obj = parent\n", 'R-C14-meta'),
    _m('field-top-level-signal-is-parent', CONN, "          xd.top_level_signal = sd.top_level_signal\n          xd.elaborate_top = sd.elaborate_top\n",
       "          xd.top_level_signal = s\n          xd.elaborate_top = sd.elaborate_top\n", 'R-C14-meta'),
    _m('field-my-name-drops-indices', CONN, '            xd.my_name = name + "".join([ f"[{y}]" for y in indices ])', '            xd.my_name = name',
       'R-C14-meta'),
    # --- Signal.__getitem__
    _m('slice-upper-offset-by-outer-stop', CONN, "      stop  += outer_start", "      stop  += outer_stop", 'R-C14-name-storage'),
    _m('slice-lower-not-offset', CONN, "      start += outer_start\n", "      pass\n", 'R-C14-name-storage'),
    _m('slice-of-slice-cached-in-slice', CONN, "      top_signal = s._dsl.parent_obj", "      top_signal = s", 'R-C14-name-storage'),
    _m('slice-key-swapped', CONN, "    sl_tuple = (start, stop)", "    sl_tuple = (stop, start)", 'R-C14-name-storage'),
    _m('slice-name-uses-written-bounds', CONN, 'sl_str = f"[{start}:{stop}]"', 'sl_str = f"[{idx.start}:{idx.stop}]"',
       'R-C14-name-storage'),
    _m('slice-name-without-colon', CONN, 'sl_str = f"[{start}:{stop}]"', 'sl_str = f"[{start}-{stop}]"', 'R-C14-name-storage'),
    _m('slice-cache-tested-in-wrong-dict', CONN, "    if sl_tuple not in top_signal.__dict__:", "    if sl_tuple not in s.__dict__:", 'R-C14-cache'),
    _m('slice-not-cached-in-dict', CONN, "      top_signal.__dict__[ sl_tuple ] = sd.slices[ sl_tuple ] = x", "      sd.slices[ sl_tuple ] = x",
       'R-C14-name-storage'),
    _m('slice-int-index-one-bit-low', CONN, "      start, stop = idx, idx + 1", "      start, stop = idx - 1, idx", 'R-C14-name-storage'),
    _m('slice-metadata-dropped', CONN, "      xd.slice       = slice( start, stop )\n", "", 'R-C14'),
    _m('slice-metadata-wrong-bounds', CONN, "      xd.slice       = slice( start, stop )\n", "      xd.slice       = slice( start, stop - start )\n",
       'R-C14-meta'),
    _m('slice-parent-is-slice', CONN, "      xd.parent_obj = top_signal\n", "      xd.parent_obj = s\n", 'R-C14-meta'),
    _m('slice-returned-from-wrong-dict', CONN, "    return top_signal.__dict__[ sl_tuple ]", "    return s.__dict__[ sl_tuple ]", 'R-C14-cache'),
    _m('slice-my-name-without-parent', CONN, 'xd.my_name   = f"{sd.my_name}{sl_str}"', 'xd.my_name   = f"{sl_str}"', 'R-C14-meta'),
    _m('slice-prefix-of-the-slice', CONN, "      sd = top_signal._dsl\n", "      sd = s._dsl\n", 'R-C14'),
    # --- accessors
    _m('host-walk-polarity', CONN, "        while not host.is_component():", "        while host.is_component():", 'R-C14-api'),
    _m('host-walk-no-progress', CONN, "          host = host.get_parent_object() # go to the component", "          host = s.get_parent_object()",
       'R-C14-api'),
    _m('is-top-level-signal-weakened', CONN, "    return s._dsl.top_level_signal is s", "    return s._dsl.top_level_signal is not None", 'R-C14-api'),
    _m('get-top-level-signal-swapped', CONN, "    return s if top is None else top", "    return top if top is None else s", 'R-C14-api'),
    _m('fresh-signal-has-no-top-level', CONN, "    s._dsl.top_level_signal = s\n", "    s._dsl.top_level_signal = None\n", 'R-C14-api'),
    # --- Component._add_component / consumers
    _m('add-prefix-is-top', COMP, 'obj._dsl.full_name = ( parent._dsl.full_name + "." + u_name )',
       'obj._dsl.full_name = ( s._dsl.full_name + "." + u_name )', 'R-C14-name-storage'),
    _m('add-walk-runs-past-last-index', COMP, "      while i < len(indices) - 1:", "      while i < len(indices):", 'R-C14-name-storage'),
    _m('add-walk-skips-first-index', COMP, "      i = 0\n      while i < len(indices) - 1:", "      i = 1\n      while i < len(indices) - 1:",
       'R-C14-name-storage'),
    _m('add-name-skips-first-index', COMP, 'u_name = name + "".join( [ f"[{x}]" for x in indices ] )',
       'u_name = name + "".join( [ f"[{x}]" for x in indices[1:] ] )', 'R-C14-name-storage'),
    _m('add-parent-is-top', COMP, "      obj._dsl.parent_obj = parent\n", "      obj._dsl.parent_obj = s\n", 'R-C14-meta'),
    _m('add-level-not-incremented', COMP, "      obj._dsl.level      = parent._dsl.level + 1\n", "      obj._dsl.level      = parent._dsl.level\n",
       'R-C14-meta'),
    _m('add-my-indices-dropped', COMP, "      obj._dsl._my_indices  = indices\n", "", 'R-C14'),
    _m('add-slot-not-checked', COMP, "      assert list_parent[ indices[i] ] is None,", "      assert list_parent is not None,", 'R-C14-reassign'),
    _m('add-field-existence-not-checked', COMP, "      assert not hasattr( parent, name ), f\"Invalid add_component call",
       "      assert hasattr( s, name ) or True, f\"Invalid add_component call", 'R-C14-reassign'),
    _m('deleted-name-still-parses', COMP, 'x._dsl.full_name = "<deleted>"+x._dsl.full_name', 'x._dsl.full_name = "deleted_"+x._dsl.full_name',
       'R-C14-name-storage'),
    _m('reroot-loses-the-dot', COMP, '"top"+repr(x)[1:]', '"top"+repr(x)[2:]', 'R-C14-api', count='first'),
    _m('field-my-indices-dropped', CONN, "            xd._my_indices = indices\n\n          else:", "\n          else:", 'R-C14'),
    _m('field-queue-appendleft', CONN, "Q.append( ( v, indices+[i], x, True ) )", "Q.appendleft( ( v, indices+[i], x, True ) )",
       'R-C14-name-storage'),
    _m('field-seed-has-an-index', CONN, "Q = deque([ (obj, [], s, False) ])", "Q = deque([ (obj, [0], s, False) ])", 'R-C14-name-storage'),
    _m('field-returns-last-created', CONN, "    return s.__dict__[ name ]", "    return x", 'R-C14-cache'),
    _m('is-sliced-signal-inverted', CONN, "    return s._dsl.slice is not None", "    return s._dsl.slice is None", 'R-C14-api'),
    _m('attr-my-name-is-parents', NAMED, "        ud._my_name  = ud.my_name = name\n", "        ud._my_name  = ud.my_name = sd.my_name\n", 'R-C14-meta'),
    _m('field-name-getter-without-indices', NAMED, "      return s._dsl.my_name\n", "      return s._dsl._my_name\n", 'R-C14-api'),
    _m('second-collector-skips-lists', NAMED, "      elif isinstance( u, list ):\n        stack.extend( u )\n    return ret\n\n  # Developers",
       "      elif isinstance( u, list ):\n        pass\n    return ret\n\n  # Developers", 'R-C14-collect'),
    _m('add-stored-at-first-index', COMP, "      list_parent[ indices[i] ] = obj", "      list_parent[ indices[0] ] = obj", 'R-C14'),
    _m('add-root-list-taken-from-top', COMP, "      list_parent = getattr( parent, name )\n      i = 0\n      while i < len(indices) - 1:",
       "      list_parent = getattr( s, name )\n      i = 0\n      while i < len(indices) - 1:", 'R-C14-name-storage'),
    _m('local-collector-one-list-level', COMP, "      elif isinstance( u, list ):\n        stack.extend( u )\n    if sort_key:",
       "      elif isinstance( u, list ):\n        ret.update( v for v in u if filt( v ) )\n    if sort_key:", 'R-C14-collect'),
    _m('local-collector-takes-private-fields', COMP, "        if name[0] != '_': # filter private variables\n          stack.append( obj )\n    while stack:",
       "        if True:\n          stack.append( obj )\n    while stack:", 'R-C14-collect'),
    dict(name='root-naming-before-constructed-guard', rule='R-C14-query', edits=[
        dict(file=NAMED, old="  def _elaborate_construct( s ):\n\n    if s._dsl.constructed:\n", new="  def _elaborate_construct( s ):\n\n    if False:\n", count=1),
        dict(file=NAMED, old="    s._dsl.elaborate_top = s\n    s._dsl.NamedObject_fields = set()\n",
             new="    s._dsl.elaborate_top = s\n    if s._dsl.constructed:\n      return\n    s._dsl.NamedObject_fields = set()\n", count=1)]),
    _m('root-naming-unguarded', NAMED, "  def _elaborate_construct( s ):\n\n    if s._dsl.constructed:\n", "  def _elaborate_construct( s ):\n\n    if s._dsl.constructed and False:\n",
       'R-C14-query'),
    _m('subtree-query-by-name-prefix', COMP, "      return s._collect_all_single( filt )",
       "      prefix = repr(s)\n      return { x for x in s._dsl.elaborate_top._dsl.all_named_objects if repr(x).startswith( prefix ) and filt(x) }",
       'R-C14-query'),
    _m('subtree-query-by-name-substring', COMP, "      return s._collect_all_single( filt )",
       "      return { x for x in s._dsl.elaborate_top._dsl.all_named_objects if s._dsl.full_name in x._dsl.full_name and filt(x) }",
       'R-C14-query'),
    _m('child-query-memoised-never-invalidated', COMP, "    return s._collect_objects_local( lambda x: isinstance( x, Component ), sort_key )",
       "    try:\n      children = s._dsl.child_components\n    except AttributeError:\n"
       "      children = s._dsl.child_components = s._collect_objects_local( lambda x: isinstance( x, Component ) )\n"
       "    return sorted( children, key = sort_key ) if sort_key else list( children )", 'R-C14-query'),
    _m('method-port-stored-under-function-name', 'pymtl3/dsl/ComponentLevel7.py', "        setattr( s, x, CalleePort( method=method ) )",
       "        setattr( s, method.__name__, CalleePort( method=method ) )", 'R-C14-name-storage'),
    _m('blocking-ifc-stored-under-function-name', 'pymtl3/dsl/ComponentLevel7.py', "        setattr( s, x, CalleeIfcFL( method=method ) )",
       "        setattr( s, method.__name__, CalleeIfcFL( method=method ) )", 'R-C14-name-storage'),
    _m('level6-non-blocking-wraps-rdy', 'pymtl3/dsl/ComponentLevel6.py', "setattr( s, x, CalleeIfcCL( Type=Type, method=method, rdy=bind_method( rdy ) ) )",
       "setattr( s, x, CalleeIfcCL( Type=Type, method=rdy, rdy=bind_method( rdy ) ) )", 'R-C14-name-storage'),
    _m('field-child-index-prepended', CONN, "Q.append( ( v, indices+[i], x, True ) )", "Q.append( ( v, [i]+indices, x, True ) )",
       'R-C14-name-storage'),
    _m('collector-skips-subtree-of-rejected-object', NAMED, "        if filt( u ): # Check if m satisfies the filter\n          ret.add( u )\n",
       "        if not filt( u ): # Check if m satisfies the filter\n          continue\n        ret.add( u )\n", 'R-C14-collect'),
    _m('collector-stops-at-plain-data', NAMED, "      elif isinstance( u, list ):\n        stack.extend( u )\n    return ret\n\n  # It is possible",
       "      elif isinstance( u, list ):\n        stack.extend( u )\n      else:\n        break\n    return ret\n\n  # It is possible", 'R-C14-collect'),
    _m('list-arm-break-on-plain-data', NAMED, "            Q.extend( (v, indices+(i,)) for i, v in enumerate(u) )\n",
       "            Q.extend( (v, indices+(i,)) for i, v in enumerate(u) )\n\n          else:\n            break\n", 'R-C14-name-storage'),
    _m('lambda-target-by-replace', 'pymtl3/dsl/ComponentLevel3.py', 'ast.parse( f"s{repr(o)[len(repr(s)):]}" )',
       'ast.parse( repr(o).replace( repr(s), "s" ) )', 'R-C14-query'),
    _m('lambda-target-cut-too-far', 'pymtl3/dsl/ComponentLevel3.py', 'f"s{repr(o)[len(repr(s)):]}"', 'f"s.{repr(o)[len(repr(s))+2:]}"', 'R-C14-query'),
    _m('netblock-writer-by-replace', 'pymtl3/passes/sim/GenDAGPass.py', 'wstr = f"s.{repr(writer)[lca_len+1:]}"',
       "wstr = f\"s.{repr(writer).replace(repr(wr_lca), '')[1:]}\"", 'R-C14-query'),
    _m('added-port-not-registered-by-name', COMP, "    top._dsl.all_signals.add( o )\n    top._dsl.all_named_objects.add( o )\n",
       "    top._dsl.all_signals.add( o )\n", 'R-C14-register'),
    _m('added-port-registered-in-wrong-table', COMP, "    top._dsl.all_named_objects.add( o )\n", "    top._dsl.all_components.add( o )\n",
       'R-C14-register'),
    _m('elaborate-without-registry', NAMED, "    s._elaborate_construct()\n    s._elaborate_collect_all_named_objects()\n",
       "    s._elaborate_construct()\n", 'R-C14-register'),
    _m('registry-collected-with-a-filter', NAMED, "    s._dsl.all_named_objects = s._collect_all_single()",
       "    s._dsl.all_named_objects = s._collect_all_single( lambda x: x.is_signal() )", 'R-C14-register'),
    _m('level-getter-off-by-one', COMP, "      return s._dsl.level\n", "      return s._dsl.level + 1\n", 'R-C14-api'),
]

EQUIV = [
    _m('attr-name-by-concatenation', NAMED, 'ud.full_name = f"{sd.full_name}.{name}"', 'ud.full_name = sd.full_name + "." + name'),
    _m('attr-name-by-format', NAMED, 'ud.full_name = f"{sd.full_name}.{name}"', 'ud.full_name = "{}.{}".format( sd.full_name, name )'),
    _m('list-indices-by-generator', NAMED, 'u_name = name + "".join( [ f"[{x}]" for x in indices ] )',
       'u_name = name + "".join( f"[{x}]" for x in indices )'),
    _m('list-seed-as-list', NAMED, "Q = deque( (u, (i,)) for i, u in enumerate(obj) )", "Q = deque( [ (u, (i,)) for i, u in enumerate(obj) ] )"),
    _m('attr-statements-reordered', NAMED, "        ud.parent_obj = s\n        ud.level      = sd.level + 1\n",
       "        ud.level      = 1 + sd.level\n        ud.parent_obj = s\n", count='first'),
    _m('attr-store-by-object-setattr', NAMED, "    super().__setattr__( name, obj )", "    object.__setattr__( s, name, obj )"),
    _m('collector-filter-startswith', NAMED, "            if name[0] != '_': # filter private variables\n              stack.append( obj )",
       "            if not name.startswith('_'):\n              stack.append( obj )", count='first'),
    _m('slice-test-by-predicate', CONN, "    if s._dsl.slice is None:\n", "    if not s.is_sliced_signal():\n"),
    _m('slice-cache-test-negated-in', CONN, "    if sl_tuple not in top_signal.__dict__:", "    if not (sl_tuple in top_signal.__dict__):"),
    _m('slice-offset-plain-assignments', CONN, "      start += outer_start\n      stop  += outer_start",
       "      start = outer_start + start\n      stop  = stop + outer_start"),
    _m('slice-name-by-concatenation', CONN, 'xd.full_name = f"{sd.full_name}{sl_str}"', 'xd.full_name = sd.full_name + sl_str'),
    _m('slice-key-inlined', CONN, "      top_signal.__dict__[ sl_tuple ] = sd.slices[ sl_tuple ] = x",
       "      sd.slices[ sl_tuple ] = x\n      top_signal.__dict__[ (start, stop) ] = x"),
    _m('field-queue-pop-zero-of-deque-renamed', CONN, "          xd.parent_obj = s\n          xd.top_level_signal = sd.top_level_signal\n",
       "          xd.top_level_signal = s._dsl.top_level_signal\n          xd.parent_obj = s\n"),
    _m('host-walk-by-metadata', CONN, "          host = host.get_parent_object() # go to the component", "          host = host._dsl.parent_obj"),
    _m('field-flag-renamed', CONN, "parent_is_list", "in_list", count=2),
    _m('field-children-by-extend', CONN, "          for i, v in enumerate( u ):\n            Q.append( ( v, indices+[i], x, True ) )",
       "          Q.extend( ( v, indices+[i], x, True ) for i, v in enumerate( u ) )"),
    _m('field-cache-test-not-in', CONN, "    if name not in s.__dict__:\n", "    if not name in s.__dict__:\n"),
    _m('list-loop-test-by-len', NAMED, "        while Q:\n          u, indices = Q.popleft()", "        while len(Q) > 0:\n          u, indices = Q.popleft()"),
    _m('list-children-by-for-loop', NAMED, "            Q.extend( (v, indices+(i,)) for i, v in enumerate(u) )",
       "            for i, v in enumerate(u):\n              Q.append( (v, indices+(i,)) )"),
    dict(name='add-walk-as-for-loop', edits=[
        dict(file=COMP, old="      i = 0\n      while i < len(indices) - 1:\n        list_parent = list_parent[ indices[i] ]\n        i += 1\n",
             new="      for k in indices[:-1]:\n        list_parent = list_parent[ k ]\n", count=1),
        dict(file=COMP, old="      assert list_parent[ indices[i] ] is None,", new="      assert list_parent[ indices[-1] ] is None,", count=1),
        dict(file=COMP, old="      list_parent[ indices[i] ] = obj", new="      list_parent[ indices[-1] ] = obj", count=1)]),
    _m('lambda-target-by-removeprefix', 'pymtl3/dsl/ComponentLevel3.py', 'f"s{repr(o)[len(repr(s)):]}"', 'f"s{repr(o).removeprefix(repr(s))}"'),
    _m('lambda-target-length-in-a-local', 'pymtl3/dsl/ComponentLevel3.py',
       '    lhs, rhs = ast.parse( f"s{repr(o)[len(repr(s)):]}" ).body[0].value, root.value',
       '    host_len = len( repr(s) )\n    lhs, rhs = ast.parse( f"s{repr(o)[host_len:]}" ).body[0].value, root.value'),
    _m('collector-verdict-in-a-local', NAMED, "        if filt( u ): # Check if m satisfies the filter\n          ret.add( u )\n",
       "        ok = filt( u )\n        if ok:\n          ret.add( u )\n"),
    _m('list-arm-continue-on-plain-data', NAMED, "            Q.extend( (v, indices+(i,)) for i, v in enumerate(u) )\n",
       "            Q.extend( (v, indices+(i,)) for i, v in enumerate(u) )\n\n          else:\n            continue\n"),
    _m('collector-key-tests-merged', NAMED,
       "          if   isinstance( name, str ):\n            if name[0] != '_': # filter private variables\n              stack.append( obj )\n\n"
       "          elif isinstance( name, tuple ): # name = [1:3]\n            stack.append( obj )\n",
       "          if ( isinstance( name, str ) and name[0] != '_' ) or \\\n             isinstance( name, tuple ):\n            stack.append( obj )\n",
       count='first'),
    _m('added-port-registered-by-set-union', COMP, "    top._dsl.all_named_objects.add( o )\n", "    top._dsl.all_named_objects |= { o }\n"),
    _m('added-port-registered-first', COMP, "    top._dsl.all_signals.add( o )\n    top._dsl.all_named_objects.add( o )\n",
       "    top._dsl.all_named_objects.update( [ o ] )\n    top._dsl.all_signals.add( o )\n"),
    _m('add-name-by-fstring', COMP, 'obj._dsl.full_name = ( parent._dsl.full_name + "." + u_name )',
       'obj._dsl.full_name = f"{parent._dsl.full_name}.{u_name}"'),
    _m('add-walk-bound-rearranged', COMP, "      while i < len(indices) - 1:", "      while i + 1 < len(indices):"),
]

LEVEL_TEXT = ("Static, path-sensitive symbolic analysis of every function that assigns a hierarchical name: the name text is "
              "evaluated in a string-template domain, parsed back as a Python access path and compared with the storage "
              "operation the same path performs (setattr, __dict__ key, BFS list position, index walk, slice key with absolute "
              "bounds); cache discipline of lazily created signals, metadata consistency, re-assignment rejection, sibling "
              "agreement, accessor functions and collector coverage are decided structurally. This establishes the name <-> "
              "storage-slot bijection for all hierarchy shapes (nested lists, struct list fields, slices of slices), which the "
              "fixed-shape unit tests cannot; nothing is executed.")
LEVEL_NOTE = ("Trusted: Python attribute lookup order and dict/list slot semantics, str(int) round trip, FIFO argument for BFS "
              "append order, unreachability of Signal.__getattr__'s non-bitstruct arm (supported by the constructor's "
              "assertion). Not decided: user construct code storing one object under two names, non-identifier attribute names, "
              "determinism of user construct code.")
TECHNIQUE = ("per-function path-sensitive symbolic execution (ast), string-template domain with parse-back of the name text, "
             "BFS / index-walk invariants, linear integer terms for slice bounds, sibling field-set comparison, finite "
             "evaluation of extracted name filters and loop bounds")
