"""A tiny interpreter for list-walking fragments of the repository (work lists, recursive flattening): statements
if / for / while / assign / augmented assign / expression calls / return / break / continue over concrete Python ints,
strs, lists, sets and tuples.  Leaves are opaque string tokens; `isinstance(x, <LeafClass>)` is true exactly for them.
Used to decide clauses of the form "every element of a nested list, at any depth, is reached exactly once" by evaluating the
fragment on small concrete shapes.  Anything outside this vocabulary raises AnalysisError (never a guess)."""
import ast

from .astutil import norm
from .errors import AnalysisError


class _Break(Exception):
    pass


class _Continue(Exception):
    pass


class _Return(Exception):
    def __init__(self, v):
        self.v = v


class Raised(Exception):
    """an exception raised by the interpreted fragment itself (`raise X(...)`)"""
    def __init__(self, name):
        self.name = name


class Model:
    """a concrete stand-in object whose attributes and methods the interpreted fragment may use (block.__name__, source.compile())"""
    def __init__(self, **kw):
        self.__dict__.update(kw)


class ListWalk:
    def __init__(self, leaf_classes, env=None, funcs=None, budget=20000, assert_raises=False):
        self.assert_raises = assert_raises
        self.leaf_classes = set(leaf_classes)     # class names for which isinstance(token, C) holds
        self.env = dict(env or {})
        self.funcs = dict(funcs or {})            # name -> python callable (hooks) or ast.FunctionDef (interpreted)
        self.budget = budget

    def tick(self):
        self.budget -= 1
        if self.budget < 0:
            raise AnalysisError("list walker does not terminate on a small finite shape")

    # ---- expressions
    def ev(self, e):
        self.tick()
        if isinstance(e, ast.Constant):
            return e.value
        if isinstance(e, ast.Name):
            if e.id in self.env:
                return self.env[e.id]
            raise AnalysisError(f"list walker: free name {e.id}")
        if isinstance(e, ast.Attribute) and norm(e) in self.env:
            return self.env[norm(e)]          # a dotted path bound as a variable (top._sched.index)
        if isinstance(e, ast.Attribute):
            try:
                base = self.ev(e.value)
            except AnalysisError:
                base = None
            if isinstance(base, Model) and hasattr(base, e.attr):
                return getattr(base, e.attr)
        if isinstance(e, (ast.List, ast.Tuple, ast.Set)):
            out = []
            for x in e.elts:
                if isinstance(x, ast.Starred):
                    out.extend(self.ev(x.value))
                else:
                    out.append(self.ev(x))
            return out if isinstance(e, ast.List) else (tuple(out) if isinstance(e, ast.Tuple) else set(out))
        if isinstance(e, ast.Subscript):
            base = self.ev(e.value)
            if isinstance(e.slice, ast.Slice):
                lo = self.ev(e.slice.lower) if e.slice.lower else None
                hi = self.ev(e.slice.upper) if e.slice.upper else None
                st = self.ev(e.slice.step) if e.slice.step else None
                return base[lo:hi:st]
            return base[self.ev(e.slice)]
        if isinstance(e, ast.UnaryOp):
            v = self.ev(e.operand)
            if isinstance(e.op, ast.Not):
                return not v
            if isinstance(e.op, ast.USub):
                return -v
        if isinstance(e, ast.BoolOp):
            if isinstance(e.op, ast.And):
                v = True
                for x in e.values:
                    v = self.ev(x)
                    if not v:
                        return v
                return v
            v = False
            for x in e.values:
                v = self.ev(x)
                if v:
                    return v
            return v
        if isinstance(e, ast.BinOp) and isinstance(e.op, (ast.Add, ast.Sub, ast.Mult)):
            a, b = self.ev(e.left), self.ev(e.right)
            return a + b if isinstance(e.op, ast.Add) else (a - b if isinstance(e.op, ast.Sub) else a * b)
        if isinstance(e, ast.Compare):
            a = self.ev(e.left)
            for op, rt in zip(e.ops, e.comparators):
                b = self.ev(rt)
                table = {ast.Eq: lambda: a == b, ast.NotEq: lambda: a != b, ast.Lt: lambda: a < b, ast.LtE: lambda: a <= b,
                         ast.Gt: lambda: a > b, ast.GtE: lambda: a >= b, ast.Is: lambda: a is b, ast.IsNot: lambda: a is not b,
                         ast.In: lambda: a in b, ast.NotIn: lambda: a not in b}
                if type(op) not in table:
                    raise AnalysisError(f"list walker: comparison outside the vocabulary: {norm(e)[:80]}")
                if not table[type(op)]():
                    return False
                a = b
            return True
        if isinstance(e, ast.IfExp):
            return self.ev(e.body) if self.ev(e.test) else self.ev(e.orelse)
        if isinstance(e, (ast.ListComp, ast.GeneratorExp, ast.SetComp)) and len(e.generators) == 1:
            g = e.generators[0]
            out = []
            saved = dict(self.env)
            for v in list(self.ev(g.iter)):
                self.bind(g.target, v)
                if all(self.ev(c) for c in g.ifs):
                    out.append(self.ev(e.elt))
            self.env = saved
            return set(out) if isinstance(e, ast.SetComp) else out
        if isinstance(e, ast.JoinedStr):
            out = ''
            for v in e.values:
                if isinstance(v, ast.Constant):
                    out += str(v.value)
                elif isinstance(v, ast.FormattedValue) and v.format_spec is None and v.conversion in (-1, 114, 115):
                    x = self.ev(v.value)
                    out += repr(x) if v.conversion == 114 else str(x)
                else:
                    raise AnalysisError(f"list walker: f-string part outside the vocabulary: {norm(e)[:80]}")
            return out
        if isinstance(e, ast.DictComp) and len(e.generators) == 1:
            g = e.generators[0]
            out = {}
            saved = dict(self.env)
            for v in list(self.ev(g.iter)):
                self.bind(g.target, v)
                if all(self.ev(c) for c in g.ifs):
                    out[self.ev(e.key)] = self.ev(e.value)
            self.env = saved
            return out
        if isinstance(e, ast.Dict) and all(k is not None for k in e.keys):
            return {self.ev(k): self.ev(v) for k, v in zip(e.keys, e.values)}
        if isinstance(e, ast.Call):
            return self.call(e)
        raise AnalysisError(f"list walker: expression outside the vocabulary: {norm(e)[:80]}")

    def isinst(self, v, c):
        kinds = c.elts if isinstance(c, ast.Tuple) else [c]
        for k in kinds:
            n = norm(k)
            if n == 'list' and isinstance(v, list):
                return True
            if n == 'tuple' and isinstance(v, tuple):
                return True
            if n in ('set', 'frozenset') and isinstance(v, (set, frozenset)):
                return True
            if n == 'int' and isinstance(v, int) and not isinstance(v, bool):
                return True
            if n == 'str':
                return False          # leaf tokens are not Python strings for the analysed code
            if n in self.leaf_classes and isinstance(v, str):
                return True
        return False

    def call(self, e):
        f = e.func
        if isinstance(f, ast.Name):
            n = f.id
            if n == 'isinstance' and len(e.args) == 2:
                return self.isinst(self.ev(e.args[0]), e.args[1])
            args = [self.ev(a) for a in e.args if not isinstance(a, ast.Starred)]
            if n in self.funcs:
                fn = self.funcs[n]
                if isinstance(fn, ast.FunctionDef):
                    return self.invoke(fn, args)
                return fn(*args, **{k.arg: self.ev(k.value) for k in e.keywords if k.arg})
            if n == 'sorted' and len(e.keywords) == 1 and e.keywords[0].arg == 'key' and norm(e.keywords[0].value) in ('repr', 'str', 'len'):
                return sorted(args[0], key={'repr': repr, 'str': str, 'len': len}[norm(e.keywords[0].value)])
            if n in ('repr', 'str') and len(args) == 1:
                return repr(args[0]) if n == 'repr' else str(args[0])
            simple = {'len': len, 'list': list, 'set': set, 'tuple': tuple, 'reversed': lambda x: list(reversed(x)),
                      'enumerate': lambda x: list(enumerate(x)), 'zip': lambda *x: list(zip(*x)), 'range': lambda *x: list(range(*x)),
                      'sorted': sorted, 'any': any, 'all': all, 'deque': list, 'iter': list, 'int': int, 'bool': bool, 'min': min, 'max': max,
                      'print': lambda *a, **k: None}
            if n in simple:
                return simple[n](*args)
            if n in self.env and callable(self.env[n]):
                return self.env[n](*args)
            raise AnalysisError(f"list walker: call outside the vocabulary: {norm(e)[:80]}")
        if isinstance(f, ast.Attribute) and norm(f) in self.env and callable(self.env[norm(f)]):
            return self.env[norm(f)](*[self.ev(a) for a in e.args if not isinstance(a, ast.Starred)],
                                     **{k.arg: self.ev(k.value) for k in e.keywords if k.arg})
        if isinstance(f, ast.Attribute):
            recv = self.ev(f.value)
            args = [self.ev(a) for a in e.args]
            if isinstance(recv, Model) and callable(getattr(recv, f.attr, None)):
                return getattr(recv, f.attr)(*args)
            m = f.attr
            if isinstance(recv, list) and m in ('append', 'extend', 'pop', 'insert', 'popleft', 'appendleft', 'reverse', 'clear', 'copy', 'index'):
                if m == 'popleft':
                    return recv.pop(0)
                if m == 'appendleft':
                    return recv.insert(0, args[0])
                if m == 'extend':
                    return recv.extend(list(args[0]))
                return getattr(recv, m)(*args)
            if isinstance(recv, str) and m in ('replace', 'join', 'startswith', 'endswith', 'strip', 'lstrip', 'rstrip', 'split', 'format', 'lower', 'upper'):
                return getattr(recv, m)(*args)
            if isinstance(recv, dict) and m in ('items', 'keys', 'values', 'get', 'setdefault', 'pop', 'update'):
                res = getattr(recv, m)(*args)
                return list(res) if m in ('items', 'keys', 'values') else res
            if isinstance(recv, set) and m in ('add', 'update', 'discard', 'remove', 'copy', 'union'):
                if m == 'update':
                    return recv.update(set(args[0]))
                return getattr(recv, m)(*args)
        if isinstance(f, (ast.Subscript, ast.Attribute)):
            fn = self.ev(f)
            if callable(fn):
                return fn(*[self.ev(a) for a in e.args if not isinstance(a, ast.Starred)],
                          **{k.arg: self.ev(k.value) for k in e.keywords if k.arg})
        raise AnalysisError(f"list walker: call outside the vocabulary: {norm(e)[:80]}")

    def invoke(self, fn, args):
        saved = self.env
        self.env = dict(saved)
        for p, a in zip([x.arg for x in fn.args.args], args):
            self.env[p] = a
        try:
            self.block(fn.body)
            ret = None
        except _Return as r:
            ret = r.v
        # mutable arguments are shared; names are local
        self.env = saved
        return ret

    # ---- statements
    def bind(self, t, v):
        if isinstance(t, ast.Name):
            self.env[t.id] = v
        elif isinstance(t, (ast.Tuple, ast.List)):
            for tt, vv in zip(t.elts, v):
                self.bind(tt, vv)
        elif isinstance(t, ast.Subscript):
            self.ev(t.value)[self.ev(t.slice)] = v
        elif isinstance(t, ast.Attribute) and norm(t) in self.env:
            self.env[norm(t)] = v
        else:
            raise AnalysisError(f"list walker: assignment target outside the vocabulary: {norm(t)}")

    def block(self, stmts):
        for st in stmts:
            self.tick()
            if isinstance(st, ast.If):
                self.block(st.body if self.ev(st.test) else st.orelse)
            elif isinstance(st, ast.For):
                for v in list(self.ev(st.iter)):
                    self.bind(st.target, v)
                    try:
                        self.block(st.body)
                    except _Break:
                        break
                    except _Continue:
                        continue
                else:
                    self.block(st.orelse)
            elif isinstance(st, ast.While):
                while self.ev(st.test):
                    self.tick()
                    try:
                        self.block(st.body)
                    except _Break:
                        break
                    except _Continue:
                        continue
            elif isinstance(st, ast.Assign):
                v = self.ev(st.value)
                for t in st.targets:
                    self.bind(t, v)
            elif isinstance(st, ast.AugAssign) and isinstance(st.target, ast.Attribute) and norm(st.target) in self.env and \
                    isinstance(st.op, (ast.Add, ast.Sub)) and isinstance(self.env[norm(st.target)], int):
                v = self.ev(st.value)
                self.env[norm(st.target)] += v if isinstance(st.op, ast.Add) else -v
            elif isinstance(st, ast.AugAssign) and isinstance(st.target, ast.Subscript) and isinstance(st.op, (ast.Add, ast.Sub)):
                box, key, v = self.ev(st.target.value), self.ev(st.target.slice), self.ev(st.value)
                box[key] = box[key] + v if isinstance(st.op, ast.Add) else box[key] - v
            elif isinstance(st, ast.AugAssign) and isinstance(st.target, ast.Name):
                cur, v = self.env[st.target.id], self.ev(st.value)
                if isinstance(st.op, ast.Add):
                    if isinstance(cur, list):
                        cur.extend(v)
                    else:
                        self.env[st.target.id] = cur + v
                elif isinstance(st.op, ast.Sub):
                    self.env[st.target.id] = cur - v
                elif isinstance(st.op, ast.BitOr) and isinstance(cur, set):
                    cur.update(v)
                else:
                    raise AnalysisError(f"list walker: augmented assignment outside the vocabulary: {norm(st)}")
            elif isinstance(st, ast.Expr):
                if not isinstance(st.value, ast.Constant):
                    self.ev(st.value)
            elif isinstance(st, ast.Return):
                raise _Return(self.ev(st.value) if st.value is not None else None)
            elif isinstance(st, ast.Break):
                raise _Break()
            elif isinstance(st, ast.Continue):
                raise _Continue()
            elif isinstance(st, ast.Pass):
                pass
            elif isinstance(st, ast.FunctionDef):
                self.env[st.name] = st            # a local function: kept as a value (callable through self.funcs if registered)
                self.funcs.setdefault(st.name, st)
            elif isinstance(st, ast.Import) and all(a.name in getattr(self, 'allowed_imports', ()) for a in st.names):
                pass                                   # the module's members are provided as dotted names in env
            elif isinstance(st, (ast.Import, ast.ImportFrom)):
                raise ImportError(f"{norm(st)[:60]} (no such module in the model)")
            elif isinstance(st, ast.Assert):
                if not self.ev(st.test):
                    if self.assert_raises:
                        raise AssertionError()
                    raise AnalysisError(f"list walker: assertion `{norm(st.test)}` fails on a well-formed shape")
            elif isinstance(st, ast.Raise):
                exc = st.exc.func if isinstance(st.exc, ast.Call) else st.exc
                raise Raised(norm(exc) if exc is not None else 'reraise')
            elif isinstance(st, ast.Try):
                try:
                    self.block(st.body)
                except (_Break, _Continue, _Return, AnalysisError):
                    raise
                except Exception as e:          # noqa: BLE001 -- Python's own IndexError / TypeError / ... of the concrete evaluation
                    ename = e.name if isinstance(e, Raised) else e.__class__.__name__
                    for h in st.handlers:
                        names = [] if h.type is None else ([norm(x) for x in h.type.elts] if isinstance(h.type, ast.Tuple) else [norm(h.type)])
                        if h.type is None or ename in names or 'Exception' in names or \
                                (ename in ('IndexError', 'KeyError') and 'LookupError' in names):
                            if h.name:
                                self.env[h.name] = ename
                            self.block(h.body)
                            break
                    else:
                        raise
                else:
                    self.block(st.orelse)
                finally:
                    self.block(st.finalbody)
            else:
                raise AnalysisError(f"list walker: statement outside the vocabulary: {norm(st)[:80]}")
