"""Orderedness ("hash-seed taint") analysis used by the C13 rules.

A small whole-program abstract interpretation over the *source* of the analysed files (never
imported, never run).  The abstract value of an expression says whether iterating it yields a
hash-seed dependent order:

  O                     scalar / unknown / deterministic
  ('C', u, elem)        a collection; u = iteration order depends on the hash seed (set, frozenset,
                        anything materialised from one without sorting); elem = abstract value of
                        what iteration / subscription yields
  ('R', ((key, val),..))a record with known constant keys (tuple positions, dict literals with
                        constant keys); ordered

Interprocedural parts (all name based, joined to a fixpoint):
  * return summaries, context sensitive on the abstract arguments and on whether an optional
    parameter is supplied / None (so get_child_components(repr) and get_child_components() differ),
  * attribute fields  (X.attr = v, X.attr[k] = v, X.attr.append(v) ...), keyed by attribute name
    ('_dsl.' prefix kept apart),
  * component metadata (set_metadata(K.key, v) / get_metadata(K.key)), keyed by key name,
  * parameters (join over the resolved call sites),
  * an effect summary (does a function perform an *ordered accumulation*: append/insert/extend/
    write, item store, string accumulation on something that is not a fresh local).

A *sink* is an order-observing consumption of an unordered value inside the reporting scope:
a for statement / comprehension over it whose body performs an ordered accumulation on a non-local
or calls an effectful / unresolved function, `sep.join(U)`, text made from U (str/repr/format),
U passed to an unresolved callee, U written to a file.  Appending to a fresh local list inside an
unordered loop only taints the local (it may still be sorted before use).
"""
import ast

from .astutil import norm, walk_no_nested, parent
from .errors import AnalysisError

O = ('O',)
MAXD = 3


def C(u, elem=O):
    return ('C', bool(u), trim(elem, MAXD - 1))


def R(pairs):
    return ('R', tuple(sorted(((str(k), v) for k, v in pairs), key=lambda kv: kv[0])))


def any_u(v):
    if v[0] == 'C':
        return v[1] or any_u(v[2])
    if v[0] == 'R':
        return any(any_u(x) for _, x in v[1])
    return False


def trim(v, d):
    if v[0] == 'O':
        return v
    if d <= 0:
        return ('C', True, O) if any_u(v) else O
    if v[0] == 'C':
        return ('C', v[1], trim(v[2], d - 1))
    return ('R', tuple((k, trim(x, d - 1)) for k, x in v[1]))


def u_of(v):
    return v[0] == 'C' and v[1]


def elem_of(v):
    if v[0] == 'C':
        return v[2]
    if v[0] == 'R':
        out = O
        for _, x in v[1]:
            out = join(out, x)
        return out
    return O


def with_u(v):
    return C(True, elem_of(v))


def join(a, b):
    if a == b:
        return a
    if a[0] == 'O':
        return b
    if b[0] == 'O':
        return a
    if a[0] == 'R' and b[0] == 'R' and [k for k, _ in a[1]] == [k for k, _ in b[1]]:
        return ('R', tuple((k, join(x, y)) for (k, x), (_, y) in zip(a[1], b[1])))
    return C(u_of(a) or u_of(b), join(elem_of(a), elem_of(b)))


def add_elem(v, e):
    """v after an element e was stored into it"""
    if v[0] == 'R':
        v = C(False, elem_of(v))
    if v[0] == 'O':
        return C(False, e)
    return C(v[1], join(v[2], e))


def show(v):
    if v[0] == 'O':
        return 'ordered'
    if v[0] == 'R':
        return 'record'
    return ('UNORDERED' if v[1] else 'ordered') + (' of ' + show(v[2]) if v[2][0] != 'O' else '')


def jn(a, b):
    """join of nullness states: None (bottom) / 'none' / 'given' / 'unknown'"""
    if a is None:
        return b
    if b is None or a == b:
        return a
    return 'unknown'


# ---------------------------------------------------------------------------------------------
PURE_FUNCS = {
    'len', 'isinstance', 'issubclass', 'hasattr', 'getattr', 'repr', 'str', 'int', 'bool', 'float', 'id', 'type',
    'tuple', 'list', 'dict', 'set', 'frozenset', 'sorted', 'reversed', 'enumerate', 'zip', 'range', 'min', 'max',
    'sum', 'any', 'all', 'abs', 'callable', 'iter', 'next', 'map', 'filter', 'vars', 'dir', 'hash', 'ord', 'chr',
    'hex', 'bin', 'oct', 'format', 'round', 'divmod', 'pow', 'super', 'deque', 'defaultdict', 'OrderedDict',
    'dedent', 'ceil', 'log2', 'clog2', 'reduce', 'eval', 'blake2b', 'locals', 'globals', 'bytes', 'slice',
    'object', 'staticmethod', 'classmethod', 'property', 'setattr', 'delattr', 'compile', 'Exception',
    'AssertionError', 'TypeError', 'ValueError', 'NotImplementedError', 'AttributeError', 'KeyError',
}
EFFECT_FUNCS = {'print', 'open', 'exec'}
PURE_METHODS = {
    'format', 'join', 'split', 'rsplit', 'strip', 'lstrip', 'rstrip', 'replace', 'startswith', 'endswith', 'lower',
    'upper', 'find', 'rfind', 'index', 'count', 'encode', 'decode', 'isidentifier', 'isdigit', 'isalnum', 'isalpha',
    'zfill', 'ljust', 'rjust', 'splitlines', 'title', 'capitalize', 'partition', 'rpartition', 'format_map',
    'get', 'items', 'keys', 'values', 'copy', 'union', 'intersection', 'difference', 'symmetric_difference',
    'issubset', 'issuperset', 'isdisjoint', 'hexdigest', 'digest', 'bit_length', 'add', 'discard', 'remove', 'pop',
    'popleft', 'sort', 'reverse', 'clear', 'flush', 'close', 'fromkeys', 'most_common', 'group', 'groups',
}
ACCUM_METHODS = {'append', 'extend', 'insert', 'appendleft', 'extendleft', 'setdefault', 'update', 'write',
                 'writelines'}
SEQ_CTORS = {'list', 'tuple', 'iter', 'reversed', 'deque', 'dict', 'OrderedDict'}
FRESH_CTORS = {'list', 'dict', 'set', 'frozenset', 'deque', 'defaultdict', 'OrderedDict', 'sorted', 'tuple', 'str',
               'int', 'sum', 'TranslatorMetadata', 'bool', 'len'}
TEXT_FUNCS = {'str', 'repr', 'format', 'print'}


class FuncInfo:
    def __init__(self, mod, node, cls, outer):
        self.mod, self.node, self.cls, self.outer = mod, node, cls, outer
        parts = [node.name]
        cur = parent(node)
        while cur is not None:
            if isinstance(cur, (ast.FunctionDef, ast.AsyncFunctionDef, ast.ClassDef)):
                parts.append(cur.name)
            cur = parent(cur)
        self.qual = '.'.join(reversed(parts))
        self.id = (mod.rel, self.qual)
        a = node.args
        self.pos = [x.arg for x in a.posonlyargs + a.args]
        self.kwonly = [x.arg for x in a.kwonlyargs]
        self.defaults = {}
        for p, d in zip(reversed(self.pos), reversed(a.defaults)):
            self.defaults[p] = d
        for p, d in zip(self.kwonly, a.kw_defaults):
            if d is not None:
                self.defaults[p] = d
        self.vararg = a.vararg.arg if a.vararg else None
        self.kwarg = a.kwarg.arg if a.kwarg else None
        static = any(isinstance(d, ast.Name) and d.id == 'staticmethod' for d in node.decorator_list)
        self.selfname = self.pos[0] if (cls is not None and self.pos and not static) else None
        self._nodes = None
        self.is_gen = any(isinstance(n, (ast.Yield, ast.YieldFrom)) for n in self._own_nodes())
        # locals
        self.assigned = set()
        self.nonlocal_names = set()
        for n in self._own_nodes():
            if isinstance(n, ast.Name) and isinstance(n.ctx, (ast.Store, ast.Del)):
                self.assigned.add(n.id)
            elif isinstance(n, (ast.Global, ast.Nonlocal)):
                self.nonlocal_names.update(n.names)
        self._fresh = None

    def _own_nodes(self):
        """all nodes of the body, not descending into nested defs / classes / lambdas"""
        if self._nodes is None:
            out = []
            for st in self.node.body:
                if isinstance(st, (ast.FunctionDef, ast.AsyncFunctionDef, ast.ClassDef)):
                    continue
                out.extend(walk_no_nested(st))
            self._nodes = out
        return self._nodes

    def all_params(self):
        out = list(self.pos) + list(self.kwonly)
        if self.vararg:
            out.append(self.vararg)
        if self.kwarg:
            out.append(self.kwarg)
        return out

    def fresh_locals(self):
        """locals that only ever hold objects created in this function (literals, comprehensions,
        builtin constructors): mutating them is not an effect visible to the caller"""
        if self._fresh is not None:
            return self._fresh
        cand = {}
        params = set(self.all_params())
        for n in self._own_nodes():
            tv = []
            if isinstance(n, ast.Assign):
                for t in n.targets:
                    tv.append((t, n.value))
            elif isinstance(n, ast.AnnAssign) and n.value is not None:
                tv.append((n.target, n.value))
            elif isinstance(n, (ast.For, ast.AsyncFor)):
                tv.append((n.target, None))
            elif isinstance(n, (ast.With, ast.AsyncWith)):
                for it in n.items:
                    if it.optional_vars is not None:
                        tv.append((it.optional_vars, None))
            elif isinstance(n, ast.comprehension):
                tv.append((n.target, None))
            elif isinstance(n, ast.ExceptHandler) and n.name:
                cand[n.name] = False
            elif isinstance(n, ast.NamedExpr):
                tv.append((n.target, n.value))
            for t, v in tv:
                if isinstance(t, ast.Name):
                    ok = v is not None and _is_fresh_expr(v)
                    cand[t.id] = cand.get(t.id, True) and ok
                elif isinstance(t, (ast.Tuple, ast.List)):
                    if v is not None and isinstance(v, (ast.Tuple, ast.List)) and len(v.elts) == len(t.elts):
                        for te, ve in zip(t.elts, v.elts):
                            if isinstance(te, ast.Name):
                                cand[te.id] = cand.get(te.id, True) and _is_fresh_expr(ve)
                    else:
                        for x in ast.walk(t):
                            if isinstance(x, ast.Name):
                                cand[x.id] = False
        self._fresh = {k for k, v in cand.items() if v and k not in params and k not in self.nonlocal_names}
        return self._fresh


def _is_fresh_expr(v):
    if isinstance(v, (ast.List, ast.Dict, ast.Set, ast.Tuple, ast.ListComp, ast.DictComp, ast.SetComp,
                      ast.GeneratorExp, ast.Constant, ast.JoinedStr)):
        return True
    if isinstance(v, ast.BinOp):
        return _is_fresh_expr(v.left) or _is_fresh_expr(v.right) or isinstance(v.op, (ast.Add, ast.Mult, ast.Mod))
    if isinstance(v, ast.Call):
        if isinstance(v.func, ast.Name) and v.func.id in FRESH_CTORS:
            return True
        if isinstance(v.func, ast.Attribute) and v.func.attr in ('format', 'join', 'copy', 'split', 'replace',
                                                                  'strip'):
            return True
    if isinstance(v, ast.IfExp):
        return _is_fresh_expr(v.body) and _is_fresh_expr(v.orelse)
    return False


def chain_root(e):
    """(root expr, [hops]) for a receiver/target chain of Attribute / Subscript"""
    hops = []
    while True:
        if isinstance(e, ast.Attribute):
            hops.append(('attr', e.attr))
            e = e.value
        elif isinstance(e, ast.Subscript):
            hops.append(('sub', e.slice))
            e = e.value
        else:
            break
    hops.reverse()
    return e, hops


def field_key_of_attr(e):
    """key of the field map for an Attribute node"""
    if isinstance(e.value, ast.Attribute) and e.value.attr == '_dsl':
        return '_dsl.' + e.attr
    return e.attr


def last_field(e):
    """the Attribute node that names the container in a chain like s.a.b[k][j] -> node of `.b`"""
    while isinstance(e, ast.Subscript):
        e = e.value
    return e if isinstance(e, ast.Attribute) else None


def _looks_text(e):
    if isinstance(e, ast.JoinedStr):
        return True
    if isinstance(e, ast.Constant) and isinstance(e.value, str):
        return True
    if isinstance(e, ast.Call) and isinstance(e.func, ast.Attribute) and e.func.attr in ('format', 'join'):
        return True
    if isinstance(e, ast.Call) and isinstance(e.func, ast.Name) and e.func.id in ('str', 'repr'):
        return True
    if isinstance(e, ast.BinOp) and isinstance(e.op, (ast.Add, ast.Mod)):
        return _looks_text(e.left) or _looks_text(e.right)
    return False


class Ctx:
    """an enclosing iteration whose order is hash-seed dependent"""
    def __init__(self, node, desc, targets, outer):
        self.node, self.desc, self.targets, self.outer = node, desc, targets, outer
        self.effects = []

    def all_targets(self):
        out = set(self.targets)
        if self.outer is not None:
            out |= self.outer.all_targets()
        return out


class Analysis:
    def __init__(self, repo, scope, support, extra=None):
        self.repo = repo
        self.scope = list(scope)
        self.files = list(scope) + [f for f in support if f not in scope]
        self.mods = {}
        for rel in self.files:
            self.mods[rel] = repo.mod(rel)
        for m in (extra or []):
            self.mods[m.rel] = m
            self.files.append(m.rel)
            self.scope.append(m.rel)
        self.funcs, self.by_name, self.classes, self.by_node = {}, {}, {}, {}
        self._rescache, self._keep = {}, []
        self._index()
        self.fields, self.meta, self.params, self.nulls = {}, {}, {}, {}
        self.effect = {}
        self.tick, self.last, self.readstack = 0, {}, []
        self.memo, self.done, self.inprogress = {}, {}, set()
        self.fsinks, self.fsites, self.frets, self.called = {}, {}, {}, set()
        self.cur_sinks, self.cur_sites = {}, {}
        self.modmemo = {}
        self.stack = []
        self.sinks = {}
        self.sites = []
        self.evals = 0
        self.rounds = 0
        self.unresolved = 0
        self.resolved = 0

    # ------------------------------------------------------------------ indexing
    def _index(self):
        for rel, m in self.mods.items():
            for n in ast.walk(m.tree):
                if isinstance(n, ast.ClassDef):
                    self.classes.setdefault(n.name, []).append((m, n))
                elif isinstance(n, (ast.FunctionDef, ast.AsyncFunctionDef)):
                    cls, outer = None, None
                    cur = parent(n)
                    while cur is not None:
                        if isinstance(cur, ast.ClassDef):
                            if outer is None:
                                cls = cur
                            break
                        if isinstance(cur, (ast.FunctionDef, ast.AsyncFunctionDef)):
                            if outer is None:
                                outer = cur
                            break
                        cur = parent(cur)
                    fi = FuncInfo(m, n, cls, outer)
                    self.funcs[fi.id] = fi
                    self.by_node[id(n)] = fi
                    self.by_name.setdefault(n.name, []).append(fi)

    def enclosing_class(self, fi):
        cur = fi
        while cur is not None:
            if cur.cls is not None:
                return cur.cls
            cur = self.by_node.get(id(cur.outer)) if cur.outer is not None else None
        return None

    def self_names(self, fi):
        out = set()
        cur = fi
        while cur is not None:
            if cur.selfname:
                out.add(cur.selfname)
            cur = self.by_node.get(id(cur.outer)) if cur.outer is not None else None
        return out

    # ------------------------------------------------------------------ callee resolution (syntactic)
    def resolve_callees(self, fi, call, mod=None):
        """-> ('builtin', name) | ('funcs', [(FuncInfo, bound)]) | ('none', why)
        fi: FuncInfo of the calling function (None at module / class level, then mod is given)"""
        k = self._rescache.get(id(call))
        if k is None:
            k = self._resolve_callees(fi, call, mod)
            self._rescache[id(call)] = k
            self._keep.append(call)
        return k

    def _resolve_callees(self, fi, call, mod=None):
        f = call.func
        mod = fi.mod if fi is not None else mod
        if isinstance(f, ast.Name):
            n = f.id
            # nested defs in the lexical chain
            cur = fi
            while cur is not None:
                for st in cur.mod._defs_in(cur.node.body):
                    if isinstance(st, ast.FunctionDef) and st.name == n:
                        return ('funcs', [(self.by_node[id(st)], False)])
                if n in cur.assigned or n in cur.all_params():
                    return ('none', f'{n} is a local variable holding a callable')
                cur = self.by_node.get(id(cur.outer)) if cur.outer is not None else None
            r = self.repo.resolve(mod, n) if mod is not None else None
            if r is not None:
                rm, node = r
                if isinstance(node, ast.FunctionDef):
                    fi2 = self.by_node.get(id(node))
                    if fi2 is None:
                        fi2 = self._adopt(rm, node)
                    return ('funcs', [(fi2, False)])
                if isinstance(node, ast.ClassDef):
                    return self._ctor(rm, node)
                if isinstance(node, ast.Call):
                    # X = mk_Factory(...) at module level: a class made by a factory
                    return ('none', f'{n} is produced by a factory call')
                return ('none', f'{n} is not a function')
            if n in PURE_FUNCS or n in EFFECT_FUNCS:
                return ('builtin', n)
            if n in self.classes:
                m2, c2 = self.classes[n][0]
                return self._ctor(m2, c2)
            return ('none', f'unresolved name {n}')
        if isinstance(f, ast.Attribute):
            a = f.attr
            recv = f.value
            if isinstance(recv, ast.Call) and isinstance(recv.func, ast.Name) and recv.func.id == 'super':
                cls = self.enclosing_class(fi) if fi is not None else None
                if cls is not None:
                    cm = None
                    for m2, c2 in self.classes.get(cls.name, []):
                        if c2 is cls:
                            cm = m2
                    try:
                        hit = self.repo.lookup_method(cm, cls, a, after=cls) if cm is not None else None
                    except AnalysisError:
                        hit = None
                    if hit is not None:
                        fi2 = self.by_node.get(id(hit[2])) or self._adopt(hit[0], hit[2])
                        return ('funcs', [(fi2, True)])
                    # class made by a factory (mixin tower): fall back to name based lookup
                    cands = [(x, x.selfname is not None) for x in self.by_name.get(a, [])
                             if x.cls is not None and x.cls is not cls]
                    if cands and cls is not None and not all(self.repo.resolve_class(cm, b) for b in cls.bases):
                        return ('funcs', cands)
                return ('builtin', 'super.' + a)
            is_self = isinstance(recv, ast.Name) and fi is not None and recv.id in self.self_names(fi)
            # a module alias:  rt.Array(...), sexp.gen_signal_expr(...)
            if isinstance(recv, ast.Name) and mod is not None and recv.id in mod.imports and \
                    (fi is None or recv.id not in fi.assigned):
                r = self.repo.resolve(mod, recv.id)
                if r is not None and isinstance(r[1], ast.Module):
                    r2 = self.repo.resolve(r[0], a)
                    if r2 is not None and isinstance(r2[1], ast.FunctionDef):
                        fi2 = self.by_node.get(id(r2[1])) or self._adopt(r2[0], r2[1])
                        return ('funcs', [(fi2, False)])
                    if r2 is not None and isinstance(r2[1], ast.ClassDef):
                        return self._ctor(r2[0], r2[1])
                    return ('none', f'{recv.id}.{a} not found')
                if r is None:
                    return ('builtin', recv.id + '.' + a)      # external module (os, inspect, ...)
            cands = [(x, x.selfname is not None) for x in self.by_name.get(a, []) if x.outer is None]
            if not is_self and (a in PURE_METHODS or a in ACCUM_METHODS):
                return ('builtin', '.' + a)
            if cands:
                return ('funcs', cands)
            if a in self.classes:
                m2, c2 = self.classes[a][0]
                return self._ctor(m2, c2)
            if a in PURE_METHODS or a in ACCUM_METHODS:
                return ('builtin', '.' + a)
            return ('none', f'unresolved method .{a}')
        if isinstance(f, ast.Call):
            inner = self.resolve_callees(fi, f, mod)
            if inner[0] != 'funcs':
                return ('none', 'callee is the result of an unresolved call')
            out = []
            for fi2, _ in inner[1]:
                rets = [n for n in fi2._own_nodes() if isinstance(n, ast.Return) and n.value is not None]
                if not rets:
                    return ('none', 'factory without return')
                for r in rets:
                    if not isinstance(r.value, ast.Name):
                        return ('none', 'factory returns a non-name')
                    rr = self.repo.resolve(fi2.mod, r.value.id)
                    if rr is None:
                        return ('none', 'factory returns an unresolved name')
                    if isinstance(rr[1], ast.ClassDef):
                        k = self._ctor(rr[0], rr[1])
                        out.extend(k[1])
                    elif isinstance(rr[1], ast.FunctionDef):
                        out.append((self.by_node.get(id(rr[1])) or self._adopt(rr[0], rr[1]), False))
                    else:
                        return ('none', 'factory returns a non-callable')
            return ('funcs', out)
        return ('none', 'callee expression not understood')

    def _adopt(self, m, node):
        """a function of a module outside the analysed file set reached through an import"""
        if m.rel not in self.mods:
            self.mods[m.rel] = m
        cls = parent(node) if isinstance(parent(node), ast.ClassDef) else None
        fi = FuncInfo(m, node, cls, None)
        self.funcs[fi.id] = fi
        self.by_node[id(node)] = fi
        return fi

    def _ctor(self, m, c):
        try:
            hit = self.repo.lookup_method(m, c, '__init__')
        except AnalysisError:
            hit = None
        if hit is None:
            return ('funcs', [])
        fi2 = self.by_node.get(id(hit[2])) or self._adopt(hit[0], hit[2])
        return ('funcs', [(fi2, True)])

    # ------------------------------------------------------------------ effect summaries
    def compute_effects(self):
        direct, calls = {}, {}
        for fid, fi in list(self.funcs.items()):
            d, cs = self._direct_effect(fi)
            direct[fid] = d
            calls[fid] = cs
        eff = dict(direct)
        changed = True
        while changed:
            changed = False
            for fid, cs in list(calls.items()):
                if eff.get(fid):
                    continue
                for kind, payload in cs:
                    if kind == 'unknown':
                        eff[fid] = f'calls {payload}'
                    else:
                        for fi2, _ in payload:
                            if fi2.id not in eff:
                                d, c2 = self._direct_effect(fi2)
                                direct[fi2.id] = d
                                eff[fi2.id] = d
                                calls.setdefault(fi2.id, c2)
                                changed = True
                            if eff.get(fi2.id):
                                eff[fid] = f'calls {fi2.qual}'
                                break
                    if eff.get(fid):
                        changed = True
                        break
        self.effect = eff

    def _root_kind(self, fi, e):
        """classify the object a store / mutation goes to: 'local' | ('field', key) | 'other'"""
        root, hops = chain_root(e)
        if isinstance(root, ast.Name) and root.id in fi.fresh_locals():
            return 'local'
        lf = last_field(e)
        if lf is not None:
            return ('field', field_key_of_attr(lf))
        return 'other'

    def _direct_effect(self, fi):
        """(reason or None, [call descriptors])"""
        reason = None
        calls = []
        skip = set()
        for n in fi._own_nodes():
            if isinstance(n, (ast.Raise, ast.Assert)):
                for x in ast.walk(n):
                    skip.add(id(x))
        for n in fi._own_nodes():
            if id(n) in skip:
                continue
            if isinstance(n, (ast.Assign, ast.AugAssign, ast.AnnAssign)):
                tgts = n.targets if isinstance(n, ast.Assign) else [n.target]
                for t in tgts:
                    for x in ([t] if not isinstance(t, (ast.Tuple, ast.List)) else t.elts):
                        if isinstance(x, ast.Subscript):
                            if self._root_kind(fi, x.value) != 'local':
                                reason = reason or f'item store {norm(x)}'
                        elif isinstance(x, ast.Attribute) and isinstance(n, ast.AugAssign):
                            if self._root_kind(fi, x) != 'local':
                                reason = reason or f'accumulation {norm(x)}'
                        elif isinstance(x, ast.Name) and isinstance(n, ast.AugAssign) and x.id in fi.nonlocal_names:
                            reason = reason or f'accumulation on nonlocal {x.id}'
            elif isinstance(n, ast.Call):
                k = self.resolve_callees(fi, n)
                if k[0] == 'builtin':
                    nm = k[1]
                    if nm in EFFECT_FUNCS:
                        reason = reason or f'{nm}()'
                    elif nm.startswith('.') and nm[1:] in ACCUM_METHODS and isinstance(n.func, ast.Attribute):
                        if self._root_kind(fi, n.func.value) != 'local':
                            reason = reason or f'{norm(n.func)}()'
                    elif '.' in nm and nm.split('.')[-1] in ('write', 'rename', 'remove', 'system', 'makedirs', 'mkdir',
                                                             'unlink', 'rmtree'):
                        reason = reason or f'{nm}()'
                elif k[0] == 'funcs':
                    calls.append(('funcs', k[1]))
                else:
                    calls.append(('unknown', norm(n.func)))
        return reason, calls

    # ------------------------------------------------------------------ global maps (with read tracking)
    def rd(self, key):
        if self.readstack:
            self.readstack[-1].add(key)

    def _upd(self, table, key, val):
        old = table.get(key, O)
        new = join(old, val)
        if new != old:
            table[key] = new
            self.tick += 1
            self.last[(self._tname(table), key)] = self.tick

    def _tname(self, table):
        return 'f' if table is self.fields else ('m' if table is self.meta else 'p')

    def get_field(self, key):
        self.rd(('f', key))
        return self.fields.get(key, O)

    def get_meta(self, key):
        self.rd(('m', key))
        return self.meta.get(key, O)

    def get_param(self, fid, p):
        self.rd(('p', (fid, p)))
        return self.params.get((fid, p), O)

    def get_null(self, fid, p):
        self.rd(('n', (fid, p)))
        return self.nulls.get((fid, p)) or 'unknown'

    def upd_null(self, key, st):
        old = self.nulls.get(key)
        new = jn(old, st)
        if new != old:
            self.nulls[key] = new
            self.tick += 1
            self.last[('n', key)] = self.tick

    def valid(self, entry):
        t0, reads = entry[0], entry[1]
        last = self.last
        for k in reads:
            if last.get(k, 0) > t0:
                return False
        return True

    def tracked(self, fn):
        """run fn() recording the global keys it reads; -> (tick at start, reads, result)"""
        t0 = self.tick
        self.readstack.append(set())
        try:
            res = fn()
        finally:
            reads = self.readstack.pop()
            if self.readstack:
                self.readstack[-1] |= reads
        return t0, reads, res

    # ------------------------------------------------------------------ driver
    def run(self, max_rounds=30):
        self.compute_effects()
        order = list(self.funcs.values())
        class_attrs = []
        for rel, m in self.mods.items():
            for n in ast.walk(m.tree):
                if isinstance(n, ast.ClassDef):
                    for st in n.body:
                        if isinstance(st, ast.Assign) and len(st.targets) == 1 and isinstance(st.targets[0], ast.Name):
                            class_attrs.append((m, st))
        for rnd in range(max_rounds):
            self.rounds = rnd + 1
            t_before = self.tick
            for m, st in class_attrs:
                v = Interp(self, None, m, {}, {}).eval(st.value)
                self._upd(self.fields, st.targets[0].id, v)
            ran = 0
            for fi in order:
                e = self.done.get(fi.id)
                if e is not None and self.valid(e):
                    continue
                ran += 1
                self.analyse_function(fi)
            if ran == 0 and self.tick == t_before:
                break
        else:
            raise AnalysisError("orderedness analysis did not reach a fixpoint")
        self.sinks = {}
        self.sites = []
        for fi in order:
            self.sinks.update(self.fsinks.get(fi.id, {}))
            self.sites.extend(self.fsites.get(fi.id, {}).values())
            if fi.mod.rel in self.scope and fi.id not in self.called and u_of(self.frets.get(fi.id, O)):
                # nobody the analysis can see consumes the value (dynamic dispatch such as visit_<Node>,
                # or the public API): the unordered order escapes
                self.sinks[(fi.mod.rel, fi.qual, 'return value')] = dict(
                    file=fi.mod.rel, func=fi.qual, construct='return value', line=fi.node.lineno,
                    why="returns a collection whose order depends on PYTHONHASHSEED to callers that are reached "
                        "only by dynamic dispatch / from outside the analysed files")

    def closure_env(self, fi):
        """environment of the enclosing functions (for a nested def analysed on its own)"""
        if fi.outer is None:
            return {}, {}
        ofi = self.by_node[id(fi.outer)]
        key = ('env', ofi.id)
        e = self.memo.get(key)
        if e is not None and self.valid(e):
            self.readstack and self.readstack[-1].update(e[1])
            return e[2]
        if key in self.inprogress:
            return {}, {}
        self.inprogress.add(key)

        def go():
            env, nul = self.closure_env(ofi)
            env, nul = dict(env), dict(nul)
            for p in ofi.all_params():
                env[p] = self.get_param(ofi.id, p)
                nul[p] = self.get_null(ofi.id, p)
            it = Interp(self, ofi, ofi.mod, env, nul)
            it.run_body()
            return it.env, it.nul
        try:
            t0, reads, res = self.tracked(go)
        finally:
            self.inprogress.discard(key)
        self.memo[key] = (t0, reads, res)
        return res

    def analyse_function(self, fi):
        report = fi.mod.rel in self.scope
        self.cur_sinks, self.cur_sites = {}, {}

        def go():
            env, nul = self.closure_env(fi)
            env, nul = dict(env), dict(nul)
            for p in fi.all_params():
                env[p] = self.get_param(fi.id, p)
                nul[p] = self.get_null(fi.id, p)
            it = Interp(self, fi, fi.mod, env, nul, report=report)
            self.stack.append(fi.id)
            try:
                it.run_body()
            finally:
                self.stack.pop()
            return it
        t0, reads, it = self.tracked(go)
        self.done[fi.id] = (t0, reads)
        self.frets[fi.id] = C(it.gen_u, it.gen_elem) if fi.is_gen else it.ret
        self.fsinks[fi.id] = self.cur_sinks
        self.fsites[fi.id] = self.cur_sites
        return it

    def call_summary(self, fi, binding, nulls, closure=None):
        """abstract return value of fi for the given abstract arguments"""
        if fi.id in self.stack or len(self.stack) > 14:
            return O
        key = None
        if closure is None and fi.outer is None:
            key = (fi.id, tuple(sorted(binding.items())), tuple(sorted(nulls.items())))
            e = self.memo.get(key)
            if e is not None and self.valid(e):
                if self.readstack:
                    self.readstack[-1].update(e[1])
                return e[2]

        def go():
            if closure is not None:
                env, nul = dict(closure[0]), dict(closure[1])
            else:
                env, nul = self.closure_env(fi)
                env, nul = dict(env), dict(nul)
            for p in fi.all_params():
                env[p] = binding.get(p, O)
                nul[p] = nulls.get(p, 'unknown')
            it = Interp(self, fi, fi.mod, env, nul, report=False)
            self.stack.append(fi.id)
            try:
                it.run_body()
            finally:
                self.stack.pop()
            ret = it.ret
            if fi.is_gen:
                ret = C(it.gen_u, it.gen_elem)
            return ret
        t0, reads, ret = self.tracked(go)
        if key is not None:
            self.memo[key] = (t0, reads, ret)
        return ret


class Interp:
    def __init__(self, an, fi, mod, env, nul, report=False):
        self.an, self.fi, self.mod = an, fi, mod
        self.env, self.nul = env, nul
        self.report = report
        self.ret = O
        self.gen_u, self.gen_elem = False, O
        self.ctx = None
        self.quiet = 0

    # ------------------------------------------------------------------ statements
    def run_body(self):
        self.block(self.fi.node.body)

    def block(self, stmts):
        for st in stmts:
            self.stmt(st)

    def fork(self):
        return dict(self.env)

    def merge(self, envs):
        keys = set()
        for e in envs:
            keys |= set(e)
        out = {}
        for k in keys:
            v = O
            for e in envs:
                v = join(v, e.get(k, O))
            out[k] = v
        self.env = out

    def truth(self, test):
        """True / False / None (unknown) from the None-ness of optional parameters"""
        if isinstance(test, ast.UnaryOp) and isinstance(test.op, ast.Not):
            t = self.truth(test.operand)
            return None if t is None else (not t)
        if isinstance(test, ast.Name) and test.id in self.nul and \
                (self.fi is None or test.id not in self.fi.assigned):
            st = self.nul[test.id]
            return {'none': False, 'given': True}.get(st)
        if isinstance(test, ast.Compare) and len(test.ops) == 1 and isinstance(test.left, ast.Name) and \
                isinstance(test.comparators[0], ast.Constant) and test.comparators[0].value is None and \
                test.left.id in self.nul and (self.fi is None or test.left.id not in self.fi.assigned):
            st = self.nul[test.left.id]
            if st in ('none', 'given'):
                isnone = st == 'none'
                if isinstance(test.ops[0], (ast.Is, ast.Eq)):
                    return isnone
                if isinstance(test.ops[0], (ast.IsNot, ast.NotEq)):
                    return not isnone
        return None

    def stmt(self, st):
        if isinstance(st, (ast.FunctionDef, ast.AsyncFunctionDef, ast.ClassDef, ast.Import, ast.ImportFrom,
                           ast.Pass, ast.Break, ast.Continue, ast.Global, ast.Nonlocal)):
            return
        if isinstance(st, ast.Expr):
            self.eval(st.value)
            return
        if isinstance(st, ast.Assign):
            v = self.eval(st.value)
            for t in st.targets:
                self.assign(t, v, st.value)
            return
        if isinstance(st, ast.AnnAssign):
            if st.value is not None:
                self.assign(st.target, self.eval(st.value), st.value)
            return
        if isinstance(st, ast.AugAssign):
            self.augassign(st)
            return
        if isinstance(st, ast.Return):
            if st.value is not None:
                self.ret = join(self.ret, self.eval(st.value))
            return
        if isinstance(st, ast.If):
            self.eval(st.test)
            t = self.truth(st.test)
            if t is True:
                self.block(st.body)
            elif t is False:
                self.block(st.orelse)
            else:
                base = self.fork()
                self.block(st.body)
                e1 = self.env
                self.env = dict(base)
                self.block(st.orelse)
                self.merge([e1, self.env])
            return
        if isinstance(st, (ast.For, ast.AsyncFor)):
            self.for_loop(st)
            return
        if isinstance(st, ast.While):
            self.eval(st.test)
            base = self.fork()
            self.block(st.body)
            self.block(st.body)
            self.block(st.orelse)
            self.merge([base, self.env])
            return
        if isinstance(st, (ast.With, ast.AsyncWith)):
            for it in st.items:
                v = self.eval(it.context_expr)
                if it.optional_vars is not None:
                    self.assign(it.optional_vars, O, None)
            self.block(st.body)
            return
        if isinstance(st, ast.Try):
            base = self.fork()
            self.block(st.body)
            envs = [self.env]
            for h in st.handlers:
                self.env = join_env(base, envs[0])
                self.block(h.body)
                envs.append(self.env)
            self.merge(envs)
            self.block(st.orelse)
            self.block(st.finalbody)
            return
        if isinstance(st, (ast.Raise, ast.Assert)):
            self.quiet += 1
            try:
                for ch in ast.iter_child_nodes(st):
                    if isinstance(ch, ast.expr):
                        self.eval(ch)
            finally:
                self.quiet -= 1
            return
        if isinstance(st, ast.Delete):
            return
        if isinstance(st, ast.Match):
            for c in st.cases:
                self.block(c.body)
            return
        # anything else: evaluate child expressions conservatively
        for ch in ast.iter_child_nodes(st):
            if isinstance(ch, ast.expr):
                self.eval(ch)

    # ---- effects inside an unordered iteration
    def effect(self, what, node):
        if self.ctx is not None and not self.quiet:
            self.ctx.effects.append((what, getattr(node, 'lineno', 0)))

    def taint_target(self, e, node, what):
        """an ordered accumulation into the object denoted by e happens (append / item store / +=).
        Outside an unordered iteration nothing happens.  Inside: fresh local -> the local becomes
        unordered (it may still be sorted before it is used); anything else -> an effect (sink)."""
        if self.ctx is None or self.quiet:
            return
        root, hops = chain_root(e)
        if isinstance(root, ast.Name) and self.fi is not None and root.id in self.fi.fresh_locals():
            self.env[root.id] = with_u(self.env.get(root.id, O))
            return
        self.effect(f"{what} on `{norm(e)}` (not a local of this function)", node)

    def store_elem(self, e, v):
        """v is stored as an element of the container denoted by expression e"""
        root, hops = chain_root(e)
        if isinstance(root, ast.Name) and not any(h[0] == 'attr' for h in hops):
            if root.id in self.env or (self.fi is not None and root.id in self.fi.assigned):
                cur = self.env.get(root.id, O)
                if cur[0] == 'R' and len(hops) == 1:
                    ksub = hops[0][1]
                    kk = _const_key(ksub)
                    if kk is not None and any(k == kk for k, _ in cur[1]):
                        self.env[root.id] = ('R', tuple((k, join(x, v) if k == kk else x) for k, x in cur[1]))
                        return
                self.env[root.id] = join_store(cur, v, len(hops))
                return
        lf = last_field(e)
        if lf is not None:
            key = field_key_of_attr(lf)
            nsub = 0
            x = e
            while isinstance(x, ast.Subscript):
                nsub += 1
                x = x.value
            cur = self.an.get_field(key)
            new = join_store(cur, v, nsub)
            if new != cur:
                self.an._upd(self.an.fields, key, new)

    def assign(self, t, v, vexpr):
        if isinstance(t, ast.Name):
            self.env[t.id] = v
            if vexpr is not None and isinstance(vexpr, ast.Name) and vexpr.id in self.nul:
                self.nul[t.id] = self.nul[vexpr.id]
            elif t.id in self.nul:
                self.nul[t.id] = 'unknown'
        elif isinstance(t, (ast.Tuple, ast.List)):
            if v[0] == 'R' and len(v[1]) == len(t.elts) and all(k == str(i) for i, (k, _) in enumerate(
                    sorted(v[1], key=lambda kv: int(kv[0]) if kv[0].isdigit() else -1))) and \
                    not any(isinstance(x, ast.Starred) for x in t.elts):
                d = dict(v[1])
                for i, x in enumerate(t.elts):
                    self.assign(x, d[str(i)], None)
            else:
                ev = elem_of(v)
                for x in t.elts:
                    if isinstance(x, ast.Starred):
                        self.assign(x.value, C(u_of(v), ev), None)
                    else:
                        self.assign(x, ev, None)
        elif isinstance(t, ast.Attribute):
            self.eval(t.value)
            key = field_key_of_attr(t)
            self.an._upd(self.an.fields, key, v)
            if self.ctx is not None and not self.quiet:
                root, _ = chain_root(t)
                if not (isinstance(root, ast.Name) and (root.id in self.ctx.all_targets() or
                        (self.fi is not None and root.id in self.fi.fresh_locals()))):
                    self.effect(f"attribute `{norm(t)}` rebound in every iteration (last one wins)", t)
        elif isinstance(t, ast.Subscript):
            self.eval(t.value)
            self.eval(t.slice)
            self.store_elem(t, v)
            self.taint_target(t.value, t, 'item store')
        elif isinstance(t, ast.Starred):
            self.assign(t.value, v, None)

    def augassign(self, st):
        v = self.eval(st.value)
        t = st.target
        is_add = isinstance(st.op, ast.Add)
        numeric = isinstance(st.value, ast.Constant) and isinstance(st.value.value, (int, float))
        if isinstance(t, ast.Name):
            cur = self.env.get(t.id, O)
            new = join(cur, v) if (v[0] != 'O' or cur[0] != 'O') else cur
            if is_add and not numeric and self.ctx is not None and not self.quiet:
                if _looks_text(st.value):
                    self.effect(f"text accumulated with `{norm(t)} += ...`", st)
                elif self.fi is not None and (t.id in self.fi.nonlocal_names or t.id not in self.fi.assigned):
                    self.effect(f"accumulation on non-local `{t.id}`", st)
                new = with_u(new)
            self.env[t.id] = new
        else:
            if hasattr(t, 'value'):
                self.eval(t.value)
            if isinstance(t, ast.Attribute):
                key = field_key_of_attr(t)
                self.an._upd(self.an.fields, key, v)
            elif isinstance(t, ast.Subscript):
                self.store_elem(t, v)
            if is_add and not numeric:
                if self.ctx is not None and not self.quiet and _looks_text(st.value):
                    self.effect(f"text accumulated with `{norm(t)} += ...`", st)
                else:
                    self.taint_target(t, st, 'accumulation')

    def for_loop(self, st):
        itv = self.eval(st.iter)
        tgt_names = {n.id for n in ast.walk(st.target) if isinstance(n, ast.Name)}
        outer_ctx = self.ctx
        unordered = u_of(itv)
        if unordered:
            self.ctx = Ctx(st, None, tgt_names, outer_ctx)
        base = self.fork()
        self.assign(st.target, elem_of(itv), None)
        self.block(st.body)
        if unordered:
            self.ctx.effects = []
        self.assign(st.target, elem_of(itv), None)
        self.block(st.body)
        myctx = self.ctx
        self.ctx = outer_ctx
        self.block(st.orelse)
        self.merge([base, self.env])
        if self.report:
            self.an.note_site(self, st, st.iter, itv, myctx.effects if unordered else None)

    # ------------------------------------------------------------------ expressions
    def eval(self, e):
        self.an.evals += 1
        m = getattr(self, 'e_' + type(e).__name__, None)
        if m is None:
            for ch in ast.iter_child_nodes(e):
                if isinstance(ch, ast.expr):
                    self.eval(ch)
            return O
        return m(e)

    def e_Constant(self, e):
        return O

    def e_Name(self, e):
        if e.id in self.env:
            return self.env[e.id]
        if self.fi is not None and e.id in self.fi.assigned:
            return O
        return self.an.module_value(self.mod, e.id)

    def e_Attribute(self, e):
        self.eval(e.value)
        return self.an.get_field(field_key_of_attr(e))

    def e_Subscript(self, e):
        v = self.eval(e.value)
        self.eval(e.slice)
        if isinstance(e.slice, ast.Slice):
            return C(u_of(v), elem_of(v)) if v[0] != 'O' else O
        if v[0] == 'R':
            kk = _const_key(e.slice)
            if kk is not None:
                for k, x in v[1]:
                    if k == kk:
                        return x
        if u_of(v) and self.report and not self.quiet and isinstance(e.ctx, ast.Load):
            sl = e.slice
            if isinstance(sl, ast.UnaryOp) and isinstance(sl.op, ast.USub):
                sl = sl.operand
            if isinstance(sl, ast.Constant) and isinstance(sl.value, int) and not isinstance(sl.value, bool) and \
                    isinstance(e.value, ast.Call):
                self.an.sink(self, e, f"{norm(e)[:80]}", "selects an element of an unordered collection by position: which "
                             "one depends on the hash seed")
        return elem_of(v)

    def e_Slice(self, e):
        for x in (e.lower, e.upper, e.step):
            if x is not None:
                self.eval(x)
        return O

    def e_Starred(self, e):
        return self.eval(e.value)

    def _seq_literal(self, elts, positional):
        u, ev, pairs, star = False, O, [], False
        for i, x in enumerate(elts):
            if isinstance(x, ast.Starred):
                sv = self.eval(x.value)
                u = u or u_of(sv)
                ev = join(ev, elem_of(sv))
                star = True
            else:
                xv = self.eval(x)
                ev = join(ev, xv)
                pairs.append((i, xv))
        if positional and not star and pairs:
            return R(pairs)
        return C(u, ev)

    def e_List(self, e):
        return self._seq_literal(e.elts, False)

    def e_Tuple(self, e):
        return self._seq_literal(e.elts, True)

    def e_Set(self, e):
        v = self._seq_literal(e.elts, False)
        return C(True, elem_of(v))

    def e_Dict(self, e):
        pairs, ev, u, const = [], O, False, True
        for k, x in zip(e.keys, e.values):
            xv = self.eval(x)
            if k is None:
                u = u or u_of(xv)
                ev = join(ev, elem_of(xv))
                const = False
                continue
            self.eval(k)
            kk = _const_key(k)
            if kk is None:
                const = False
            pairs.append((kk, xv))
            ev = join(ev, xv)
        if const and pairs:
            return R(pairs)
        return C(u, ev)

    def _comp(self, e, elts, kind):
        saved = self.env
        self.env = dict(saved)
        saved_ctx = self.ctx
        u = False
        mine = []
        try:
            for g in e.generators:
                itv = self.eval(g.iter)
                if u_of(itv):
                    u = True
                    tg = {n.id for n in ast.walk(g.target) if isinstance(n, ast.Name)}
                    self.ctx = Ctx(e, None, tg, self.ctx)
                    mine.append((self.ctx, g, itv))
                self.assign(g.target, elem_of(itv), None)
                for c in g.ifs:
                    self.eval(c)
            vals = [self.eval(x) for x in elts]
        finally:
            self.env = saved
            self.ctx = saved_ctx
        if self.report:
            for g in e.generators:
                hit = [c for c, gg, _ in mine if gg is g]
                if hit:
                    self.an.note_site(self, e, g.iter, C(True), hit[0].effects, comp=True)
                else:
                    self.an.note_site(self, e, g.iter, O, None, comp=True)
        return u, vals

    def e_ListComp(self, e):
        u, vals = self._comp(e, [e.elt], 'list')
        return C(u, vals[0])

    def e_GeneratorExp(self, e):
        u, vals = self._comp(e, [e.elt], 'gen')
        return C(u, vals[0])

    def e_SetComp(self, e):
        u, vals = self._comp(e, [e.elt], 'set')
        return C(True, vals[0])

    def e_DictComp(self, e):
        u, vals = self._comp(e, [e.key, e.value], 'dict')
        return C(u, vals[1])

    def e_BinOp(self, e):
        a, b = self.eval(e.left), self.eval(e.right)
        if isinstance(e.op, (ast.Sub, ast.BitOr, ast.BitAnd, ast.BitXor)):
            if u_of(a) or u_of(b):
                return C(True, join(elem_of(a), elem_of(b)))
            return O
        if isinstance(e.op, ast.Add):
            if a[0] == 'O' and b[0] == 'O':
                return O
            return C(u_of(a) or u_of(b), join(elem_of(a), elem_of(b)))
        if isinstance(e.op, ast.Mult):
            return a if a[0] != 'O' else b
        if isinstance(e.op, ast.Mod):
            if self.report and not self.quiet:
                for x, xe in ((b, e.right),):
                    if u_of(x) or (x[0] == 'R' and any(u_of(y) for _, y in x[1])):
                        self.an.sink(self, e, f"text formatted from an unordered collection: {norm(e)[:80]}",
                                     "the printed order of a set depends on the hash seed")
            return O
        return O

    def e_BoolOp(self, e):
        v = O
        for x in e.values:
            v = join(v, self.eval(x))
        return v

    def e_UnaryOp(self, e):
        self.eval(e.operand)
        return O

    def e_Compare(self, e):
        self.eval(e.left)
        for x in e.comparators:
            self.eval(x)
        return O

    def e_IfExp(self, e):
        self.eval(e.test)
        t = self.truth(e.test)
        if t is True:
            return self.eval(e.body)
        if t is False:
            return self.eval(e.orelse)
        return join(self.eval(e.body), self.eval(e.orelse))

    def e_Lambda(self, e):
        return O

    def e_NamedExpr(self, e):
        v = self.eval(e.value)
        self.assign(e.target, v, e.value)
        return v

    def e_Await(self, e):
        return self.eval(e.value)

    def e_Yield(self, e):
        v = self.eval(e.value) if e.value is not None else O
        self.gen_elem = join(self.gen_elem, v)
        if self.ctx is not None:
            self.gen_u = True
        return O

    def e_YieldFrom(self, e):
        v = self.eval(e.value)
        self.gen_elem = join(self.gen_elem, elem_of(v))
        if self.ctx is not None or u_of(v):
            self.gen_u = True
        return O

    def e_JoinedStr(self, e):
        for x in e.values:
            if isinstance(x, ast.FormattedValue):
                v = self.eval(x.value)
                if u_of(v) and self.report and not self.quiet:
                    self.an.sink(self, x.value, f"text formatted from an unordered collection: {norm(x.value)[:80]}",
                                 "the printed order of a set depends on the hash seed")
        return O

    def e_FormattedValue(self, e):
        return self.eval(e.value)

    # ---- calls
    def arg_vals(self, call):
        pos = [self.eval(a) for a in call.args]
        kw = {k.arg: self.eval(k.value) for k in call.keywords}
        return pos, kw

    def null_of(self, a):
        if isinstance(a, ast.Constant) and a.value is None:
            return 'none'
        if isinstance(a, ast.Name) and a.id in self.nul and (self.fi is None or a.id not in self.fi.assigned):
            return self.nul[a.id]
        if isinstance(a, ast.Constant) and a.value in (0, '', False):
            return 'none'
        return 'given'

    def e_Call(self, call):
        an = self.an
        f = call.func
        # metadata channel
        if isinstance(f, ast.Attribute) and f.attr in ('set_metadata', 'get_metadata') and call.args:
            self.eval(f.value)
            k = call.args[0]
            key = k.attr if isinstance(k, ast.Attribute) else (k.id if isinstance(k, ast.Name) else None)
            if key is not None:
                if f.attr == 'set_metadata' and len(call.args) == 2:
                    v = self.eval(call.args[1])
                    an._upd(an.meta, key, v)
                    if self.ctx is not None:
                        self.effect("set_metadata (dictionary insertion) in every iteration", call)
                    return O
                if f.attr == 'get_metadata' and len(call.args) == 1:
                    return an.get_meta(key)
        kind = an.resolve_callees(self.fi, call, self.mod)
        if kind[0] == 'builtin':
            an.resolved += 1
            return self.builtin(call, kind[1])
        pos, kw = self.arg_vals(call)
        if isinstance(f, ast.Attribute):
            self.eval(f.value)
        elif isinstance(f, ast.Call):
            self.eval(f)
        if kind[0] == 'none':
            an.unresolved += 1
            if not self.quiet:
                if self.ctx is not None:
                    self.effect(f"call of `{norm(f)}` ({kind[1]})", call)
                if self.report:
                    for a, av in list(zip(call.args, pos)) + [(k.value, kw[k.arg]) for k in call.keywords if k.arg]:
                        if u_of(av):
                            an.sink(self, call, f"unordered collection `{norm(a)}` passed to `{norm(f)}`",
                                    f"the callee cannot be resolved ({kind[1]}) and may iterate it in hash order")
            return O
        an.resolved += 1
        ret = O
        for fi2, bound in kind[1]:
            an.called.add(fi2.id)
            binding, nulls = self.bind(call, fi2, bound, pos, kw)
            for p, v in binding.items():
                an._upd(an.params, (fi2.id, p), v)
            for p, s_ in nulls.items():
                an.upd_null((fi2.id, p), s_)
            closure = None
            if fi2.outer is not None and self.fi is not None:
                # a nested def called from its defining function (or a sibling): use the live environment
                chain = []
                cur = self.fi
                while cur is not None:
                    chain.append(cur.node)
                    cur = an.by_node.get(id(cur.outer)) if cur.outer is not None else None
                if fi2.outer in chain and fi2.outer is self.fi.node:
                    closure = (self.env, self.nul)
            ret = join(ret, an.call_summary(fi2, binding, nulls, closure))
            eff = an.effect.get(fi2.id)
            if eff and not self.quiet and self.ctx is not None:
                self.effect(f"call of `{norm(f)}` -> {fi2.qual} performs an ordered accumulation ({eff})", call)
        return ret

    def bind(self, call, fi2, bound, pos, kw):
        params = list(fi2.pos)
        if bound and params:
            params = params[1:]
        binding, nulls = {}, {}
        star = any(isinstance(a, ast.Starred) for a in call.args) or any(k.arg is None for k in call.keywords)
        for i, (a, av) in enumerate(zip(call.args, pos)):
            if isinstance(a, ast.Starred):
                break
            if i < len(params):
                binding[params[i]] = av
                nulls[params[i]] = self.null_of(a)
            elif fi2.vararg:
                binding[fi2.vararg] = join(binding.get(fi2.vararg, O), C(False, av))
        for k in call.keywords:
            if k.arg is None:
                continue
            if k.arg in params or k.arg in fi2.kwonly:
                binding[k.arg] = kw[k.arg]
                nulls[k.arg] = self.null_of(k.value)
        for p in params + fi2.kwonly:
            if p not in binding:
                if star:
                    nulls[p] = 'unknown'
                    continue
                d = fi2.defaults.get(p)
                if d is not None:
                    nulls[p] = 'none' if (isinstance(d, ast.Constant) and d.value in (None, 0, '', False)) else 'given'
                    binding[p] = O
        return binding, nulls

    def builtin(self, call, name):
        an = self.an
        f = call.func
        args = call.args
        if name.startswith('.'):
            meth = name[1:]
            recv = self.eval(f.value)
            pos, kw = self.arg_vals(call)
            a0 = pos[0] if pos else O
            if meth == 'join':
                if pos and u_of(a0) and self.report and not self.quiet:
                    an.sink(self, call, f"{norm(f)}({norm(args[0])[:60]})",
                            "joins an unordered collection into text: the order of the pieces depends on the hash seed")
                if self.report and args:
                    an.note_site(self, call, args[0], a0, None, join=True)
                return O
            if meth in ('format', 'format_map'):
                for a, av in list(zip(args, pos)) + [(k.value, kw.get(k.arg, O)) for k in call.keywords if k.arg]:
                    if u_of(av) and self.report and not self.quiet:
                        an.sink(self, call, f"text formatted from an unordered collection: {norm(a)[:80]}",
                                "the printed order of a set depends on the hash seed")
                return O
            if meth == 'items':
                return C(u_of(recv), R([(0, O), (1, elem_of(recv))]))
            if meth == 'keys':
                return C(u_of(recv), O)
            if meth == 'values':
                return C(u_of(recv), elem_of(recv))
            if meth == 'copy':
                return recv
            if meth in ('union', 'intersection', 'difference', 'symmetric_difference'):
                return C(True, join(elem_of(recv), elem_of(a0)))
            if meth == 'get':
                return join(elem_of(recv), pos[1] if len(pos) > 1 else O)
            if meth in ('pop', 'popleft'):
                if meth == 'pop' and not pos and u_of(recv) and self.report and not self.quiet and not (
                        isinstance(f.value, ast.Name) and self.fi is not None and f.value.id in self.fi.fresh_locals()):
                    an.sink(self, call, f"{norm(f)}()", "takes an arbitrary element of an unordered collection: which one "
                            "depends on the hash seed")
                return elem_of(recv)
            if meth == 'sort':
                self.strong_sort(f.value)
                return O
            if meth in ('add', 'discard', 'remove', 'clear', 'reverse'):
                if meth == 'add' and pos:
                    self.store_elem_recv(f.value, a0)
                return O
            if meth in ('append', 'appendleft', 'insert', 'setdefault'):
                v = pos[-1] if pos else O
                self.store_elem_recv(f.value, v)
                self.taint_target(f.value, call, f'.{meth}()')
                if meth == 'setdefault':
                    return join(elem_of(recv), v)
                return O
            if meth in ('extend', 'extendleft', 'update'):
                if pos:
                    self.store_elem_recv(f.value, elem_of(a0))
                    if u_of(a0):
                        self.make_unordered(f.value)
                if not (meth == 'update' and u_of(recv)):
                    self.taint_target(f.value, call, f'.{meth}()')
                return O
            if meth in ('write', 'writelines'):
                if pos and u_of(a0) and self.report and not self.quiet:
                    an.sink(self, call, f"{norm(f)}({norm(args[0])[:60]})", "writes an unordered collection")
                if self.ctx is not None:
                    self.effect(f"`{norm(f)}()` writes output", call)
                return O
            return O
        # plain builtin functions
        pos, kw = self.arg_vals(call)
        a0 = pos[0] if pos else O
        base = name.split('.')[-1]
        if name.startswith('super.'):
            return O
        if '.' in name:
            if base in ('write', 'rename', 'remove', 'system', 'makedirs', 'mkdir', 'unlink', 'rmtree'):
                self.effect(f"`{name}()`", call)
            if base in ('copy', 'deepcopy'):
                return a0
            if any(u_of(x) for x in pos):
                # an external helper (itertools.chain, ...) handed an unordered collection: assume it keeps the order
                ev = O
                for x in pos:
                    ev = join(ev, elem_of(x))
                return C(True, ev)
            return O
        if name in ('set', 'frozenset'):
            return C(True, elem_of(a0))
        if name == 'sorted':
            return C(False, elem_of(a0))
        if name in SEQ_CTORS:
            if not pos:
                return C(False, O)
            return C(u_of(a0), elem_of(a0))
        if name == 'defaultdict':
            if args and isinstance(args[0], ast.Name):
                if args[0].id in ('set', 'frozenset'):
                    return C(False, C(True, O))
                if args[0].id in ('list', 'dict', 'deque'):
                    return C(False, C(False, O))
            return C(False, O)
        if name == 'enumerate':
            return C(u_of(a0), R([(0, O), (1, elem_of(a0))]))
        if name == 'zip':
            return C(any(u_of(x) for x in pos), R([(i, elem_of(x)) for i, x in enumerate(pos)]))
        if name == 'map':
            rest = pos[1:]
            return C(any(u_of(x) for x in rest), O)
        if name == 'filter':
            return C(u_of(pos[1]) if len(pos) > 1 else False, elem_of(pos[1]) if len(pos) > 1 else O)
        if name == 'sum':
            if len(pos) > 1:
                inner = elem_of(a0)
                return C(u_of(a0) or u_of(inner), elem_of(inner))
            return O
        if name == 'reduce':
            if len(pos) > 1 and u_of(pos[1]) and self.report and not self.quiet:
                an.sink(self, call, f"reduce over `{norm(args[1])[:60]}`", "folds an unordered collection")
            return O
        if name in ('next',):
            if pos and u_of(a0) and self.report and not self.quiet:
                an.sink(self, call, f"next({norm(args[0])[:60]})", "takes the first element of an unordered collection: "
                        "which one depends on the hash seed")
            return elem_of(a0)
        if name == 'getattr':
            v = O
            if len(args) >= 2 and isinstance(args[1], ast.Constant) and isinstance(args[1].value, str):
                v = an.get_field(args[1].value)
            if len(pos) > 2:
                v = join(v, pos[2])
            return v
        if name in TEXT_FUNCS:
            for a, av in zip(args, pos):
                if u_of(av) and self.report and not self.quiet:
                    an.sink(self, call, f"{name}({norm(a)[:60]})",
                            "turns an unordered collection into text: element order depends on the hash seed")
            if name == 'print':
                self.effect("print()", call)
            return O
        if name in EFFECT_FUNCS:
            self.effect(f"{name}()", call)
            return O
        if name in ('vars', 'dir', 'locals', 'globals'):
            return C(False, O)
        if name in ('min', 'max') and pos:
            return elem_of(a0) if len(pos) == 1 else O
        return O

    def store_elem_recv(self, recv_expr, v):
        root, hops = chain_root(recv_expr)
        if isinstance(root, ast.Name) and not hops:
            if root.id in self.env or (self.fi is not None and root.id in self.fi.assigned):
                self.env[root.id] = add_elem(self.env.get(root.id, O), v)
            return
        if isinstance(recv_expr, ast.Subscript) or isinstance(recv_expr, ast.Attribute):
            # X[k].append(v): element of element
            fake = ast.Subscript(value=recv_expr, slice=ast.Constant(value=0), ctx=ast.Store())
            self.store_elem(fake, v)

    def make_unordered(self, recv_expr):
        root, hops = chain_root(recv_expr)
        if isinstance(root, ast.Name) and not hops and root.id in self.env:
            self.env[root.id] = with_u(self.env[root.id])
        else:
            lf = last_field(recv_expr)
            if lf is not None and not isinstance(recv_expr, ast.Subscript):
                key = field_key_of_attr(lf)
                self.an._upd(self.an.fields, key, with_u(self.an.get_field(key)))

    def strong_sort(self, recv_expr):
        if isinstance(recv_expr, ast.Name) and recv_expr.id in self.env:
            v = self.env[recv_expr.id]
            self.env[recv_expr.id] = C(False, elem_of(v))
        elif isinstance(recv_expr, ast.Subscript) and isinstance(recv_expr.value, ast.Name) and \
                recv_expr.value.id in self.env:
            v = self.env[recv_expr.value.id]
            kk = _const_key(recv_expr.slice)
            if v[0] == 'R' and kk is not None:
                self.env[recv_expr.value.id] = ('R', tuple((k, C(False, elem_of(x)) if k == kk else x)
                                                           for k, x in v[1]))


def _const_key(k):
    if isinstance(k, ast.Constant):
        return str(k.value) if not isinstance(k.value, str) else repr(k.value)
    if isinstance(k, ast.UnaryOp) and isinstance(k.op, ast.USub) and isinstance(k.operand, ast.Constant):
        return '-' + str(k.operand.value)
    if isinstance(k, ast.Attribute):
        return norm(k)
    return None


def join_env(a, b):
    keys = set(a) | set(b)
    return {k: join(a.get(k, O), b.get(k, O)) for k in keys}


def join_store(cur, v, depth):
    """cur after v was stored `depth` subscripts deep"""
    if depth <= 1:
        return add_elem(cur, v)
    inner = join_store(elem_of(cur), v, depth - 1)
    if cur[0] == 'O':
        return C(False, inner)
    if cur[0] == 'R':
        cur = C(False, elem_of(cur))
    return C(cur[1], join(cur[2], inner))


# ---- methods of Analysis that need Interp -----------------------------------------------------
def _module_value(self, mod, name):
    key = (mod.rel, name)
    if key in self.modmemo:
        return self.modmemo[key]
    self.modmemo[key] = O
    r = self.repo.resolve(mod, name)
    v = O
    if r is not None and isinstance(r[1], ast.expr):
        v = Interp(self, None, r[0], {}, {}).eval(r[1])
    self.modmemo[key] = v
    return v


def _sink(self, it, node, construct, why):
    fi = it.fi
    rel = it.mod.rel
    if rel not in self.scope:
        return
    qual = fi.qual if fi is not None else '<module>'
    key = (rel, qual, construct)
    if key not in self.cur_sinks:
        self.cur_sinks[key] = dict(file=rel, func=qual, construct=construct, why=why, line=getattr(node, 'lineno', 0))


def _note_site(self, it, node, iter_expr, itv, effects, comp=False, join=False):
    fi = it.fi
    rel = it.mod.rel
    if rel not in self.scope:
        return
    qual = fi.qual if fi is not None else '<module>'
    kind = 'join' if join else ('comprehension' if comp else 'for')
    nontrivial = any(isinstance(n, (ast.Call, ast.Attribute)) for n in ast.walk(iter_expr)) and not (
        isinstance(iter_expr, ast.Call) and isinstance(iter_expr.func, ast.Name) and iter_expr.func.id == 'range')
    unordered = u_of(itv)
    self.cur_sites[(id(node), id(iter_expr))] = (dict(file=rel, func=qual, kind=kind, iter=norm(iter_expr), unordered=unordered,
                           nontrivial=nontrivial, effects=list(effects or []), line=getattr(node, 'lineno', 0)))
    if unordered and effects and not join:
        if comp:
            construct = f"{norm(node)[:100]}"
        else:
            construct = f"for {norm(node.target)} in {norm(node.iter)}"
        what = '; '.join(sorted({e[0] for e in effects})[:3])
        _sink(self, it, node, construct,
              f"iterates an unordered collection ({norm(iter_expr)[:60]}: iteration order depends on PYTHONHASHSEED) "
              f"and the body is order-observing: {what}")


Analysis.module_value = _module_value
Analysis.sink = _sink
Analysis.note_site = _note_site
