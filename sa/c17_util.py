"""Static netlist model of small pymtl3 RTL components (helper of rules/c17.py).

Nothing of pymtl3 is imported or run.  `Elaborator` reads the *source* of a
component class through the loader and interprets its ``construct`` method
symbolically (parameters are small concrete integers chosen by the rule):
signal declarations, sub-component / interface instantiation (resolved through
the loader, ``super().construct`` through the static MRO), ``connect`` /
``//=`` connections, ``//= lambda`` drivers, ``@update`` and ``@update_ff``
blocks.  The result is a `Netlist`: nets (union-find over connected signals),
one driver per net, the set of registers.

`Sim` evaluates *one cycle* of a netlist over an abstract valuation supplied by
the rule (register contents + free inputs): combinational nets on demand
(blocks are executed abstractly, ``@=`` last-assignment-wins, reads of not yet
assigned signals are errors), then the ``update_ff`` blocks (``<<=``
non-blocking: reads see the old value).  Values are

* ``BV(v, n)``   -- an n-bit vector with the documented Bits semantics
  (modulo 2^n arithmetic, operands of equal width, int operands must fit);
* ``Tok(name)``  -- an opaque message token that can only be copied, selected
  or compared (data independence: any arithmetic on it is outside the domain);
* Python ints    -- elaboration-time constants.

Everything outside this vocabulary raises AnalysisError (never a pass).
Events that the real simulator would reject at run time for the enumerated
valuation (index out of range, value that does not fit, width mismatch) raise
`ModelFault`, which the rules report as a finding.
"""
import ast
import re

from .astutil import norm, walk_no_nested
from .errors import AnalysisError
from .minieval import Evaluator, Returned


class ModelFault(Exception):
    """the modelled design misbehaves for the valuation under evaluation"""


# ---------------------------------------------------------------------------
# values
class BV:
    __slots__ = ('v', 'n')

    def __init__(self, v, n):
        if not isinstance(n, int) or n < 1:
            raise AnalysisError(f"bit vector of width {n!r}")
        self.v = int(v) & ((1 << n) - 1)
        self.n = n

    def _o(self, o):
        if isinstance(o, BV):
            if o.n != self.n:
                raise ModelFault(f"operands of different widths (Bits{self.n} vs Bits{o.n})")
            return o.v
        if isinstance(o, bool):
            o = int(o)
        if isinstance(o, int):
            if o < 0 or o >= (1 << self.n):
                raise ModelFault(f"integer operand {o} does not fit Bits{self.n}")
            return o
        raise AnalysisError(f"operand outside the abstract domain: {o!r}")

    def __add__(self, o): return BV(self.v + self._o(o), self.n)
    def __radd__(self, o): return BV(self._o(o) + self.v, self.n)
    def __sub__(self, o): return BV(self.v - self._o(o), self.n)
    def __rsub__(self, o): return BV(self._o(o) - self.v, self.n)
    def __and__(self, o): return BV(self.v & self._o(o), self.n)
    __rand__ = __and__
    def __or__(self, o): return BV(self.v | self._o(o), self.n)
    __ror__ = __or__
    def __xor__(self, o): return BV(self.v ^ self._o(o), self.n)
    __rxor__ = __xor__
    def __invert__(self): return BV(~self.v, self.n)
    def __bool__(self): return self.v != 0
    def __int__(self): return self.v
    __index__ = __int__

    def __eq__(self, o):
        if isinstance(o, BV):
            return self.v == o.v and self.n == o.n
        if isinstance(o, int):
            return self.v == o
        return NotImplemented

    def __hash__(self): return hash((self.v, self.n))
    def __repr__(self): return f"{self.v}"


class Tok:
    """opaque message value"""
    __slots__ = ('name',)

    def __init__(self, name): self.name = name
    def __eq__(self, o): return isinstance(o, Tok) and o.name == self.name
    def __hash__(self): return hash(('Tok', self.name))
    def __repr__(self): return f"<{self.name}>"


class _Unassigned:
    def __repr__(self): return '<unassigned>'


UNASSIGNED = _Unassigned()


class TypeVal:
    """a Bits type (nbits int) or the opaque message type (nbits == 'data').  mk_bits returns one class per width, so
    types compare (and hash) by width"""
    def __init__(self, nbits): self.nbits = nbits
    def __repr__(self): return f"Type({self.nbits})"
    def __eq__(self, o): return isinstance(o, TypeVal) and o.nbits == self.nbits
    def __hash__(self): return hash(('TypeVal', self.nbits))


def fit(value, nbits, what=''):
    """value converted for storage in a signal of the given width (the checks of @= / <<=)"""
    if nbits == 'data':
        if isinstance(value, Tok):
            return value
        raise AnalysisError(f"non-message value {value!r} stored in message signal {what}")
    if isinstance(value, Tok):
        raise AnalysisError(f"message value stored in Bits{nbits} signal {what}")
    if isinstance(value, BV):
        if value.n != nbits:
            raise ModelFault(f"Bits{value.n} value assigned to Bits{nbits} signal {what}")
        return value
    if isinstance(value, bool):
        value = int(value)
    if isinstance(value, int):
        if value < 0 or value >= (1 << nbits):
            raise ModelFault(f"value {value} does not fit Bits{nbits} signal {what}")
        return BV(value, nbits)
    raise AnalysisError(f"value outside the abstract domain: {value!r} -> {what}")


# ---------------------------------------------------------------------------
# structure
class Sig:
    def __init__(self, kind, nbits):
        self.kind, self.nbits = kind, nbits
        self.owner, self.leaf = None, None

    @property
    def name(self):
        return (self.owner.path + '.' if self.owner is not None else '?.') + str(self.leaf)

    def __repr__(self): return f"Sig({self.name}:{self.nbits})"


class Inst:
    def __init__(self, mod, cls, is_ifc, dynamic=False):
        self.mod, self.cls, self.is_ifc, self.dynamic = mod, cls, is_ifc, dynamic
        self.parent, self.name = None, None
        self.attrs = {}

    @property
    def clsname(self): return self.cls.name if self.cls is not None else '<unresolved interface>'

    @property
    def path(self):
        return 's' if self.parent is None and self.name is None else \
            ((self.parent.path if self.parent is not None else '?') + '.' + str(self.name))

    def __repr__(self): return f"Inst({self.path}:{self.clsname})"


class ClassRef:
    def __init__(self, mod, cls): self.mod, self.cls = mod, cls


class SigCtor:
    def __init__(self, kind): self.kind = kind


class FuncRef:
    """a module-level helper function of the repository, interpreted when construct calls it"""
    def __init__(self, mod, node): self.mod, self.node = mod, node


class LambdaRef:
    def __init__(self, node, ctx): self.node, self.ctx = node, ctx


class Builtin:
    def __init__(self, name, fn): self.name, self.fn = name, fn


class Ctx:
    """static context of a piece of code inside a construct: instance bound to the self name,
    closure environment, defining module / class (for name resolution and super())"""
    def __init__(self, inst, selfname, env, mod, cls):
        self.inst, self.selfname, self.env, self.mod, self.cls = inst, selfname, env, mod, cls


class Block:
    def __init__(self, kind, ctx, node, name, target=None, const=None):
        self.kind = kind          # 'lambda' | 'comb' | 'ff' | 'const'
        self.ctx, self.node, self.name = ctx, node, name
        self.target, self.const = target, const
        self.writes = []          # list of Sig (static write set)

    @property
    def qual(self):
        c = self.ctx.inst.clsname
        return f"{c}.construct.{self.name}" if self.kind in ('comb', 'ff') else f"{c}.construct"

    def describe(self):
        if self.kind == 'lambda':
            return norm(self.node)
        if self.kind == 'const':
            return repr(self.const)
        return f"{'update_ff' if self.kind == 'ff' else 'update'} block {self.name}"


def clog2(n):
    if not isinstance(n, int) or n < 1:
        raise AnalysisError(f"clog2({n!r})")
    return (n - 1).bit_length()


def _mk_bits(n):
    if not isinstance(n, int) or n < 1:
        raise AnalysisError(f"mk_bits({n!r}): a configuration the library cannot build")
    return TypeVal(n)


_BUILTINS = {
    'clog2': Builtin('clog2', clog2), 'mk_bits': Builtin('mk_bits', _mk_bits),
    'max': Builtin('max', max), 'min': Builtin('min', min), 'range': Builtin('range', range),
    'len': Builtin('len', len),
}
_SIGCTORS = {'InPort': 'in', 'OutPort': 'out', 'Wire': 'wire'}
_BITS_RE = re.compile(r'^Bits([1-9][0-9]*)$')
# ports of val/rdy interface classes that cannot be resolved inside the repository
DYNAMIC_IFC_PORTS = {'val': ('?', 1), 'rdy': ('?', 1), 'en': ('?', 1), 'msg': ('?', 'data'), 'ret': ('?', 'data')}


class Netlist:
    def __init__(self):
        self.top = None
        self.sigs = []
        self.blocks = []
        self._uf = {}
        self.reset = Sig('in', 1)
        self.reset.leaf = 'reset'
        self.driver = {}
        self.ff_nets = set()
        self.notes = []

    def new_sig(self, kind, nbits):
        s = Sig(kind, nbits)
        self.sigs.append(s)
        return s

    def find(self, s):
        p = self._uf.get(s, s)
        if p is s:
            return s
        r = self.find(p)
        self._uf[s] = r
        return r

    def union(self, a, b):
        if a.nbits != b.nbits:
            raise ModelFault(f"connection of signals of different type: {a.name}:{a.nbits} and {b.name}:{b.nbits}")
        ra, rb = self.find(a), self.find(b)
        if ra is not rb:
            self._uf[rb] = ra

    def members(self, s):
        r = self.find(s)
        return [x for x in self.sigs + [self.reset] if self.find(x) is r]

    def finalize(self):
        self.reset.owner = self.top
        for b in self.blocks:
            for w in b.writes:
                r = self.find(w)
                d = self.driver.get(r)
                if d is not None and d is not b:
                    raise ModelFault(f"net of {w.name} has two drivers: {d.describe()} and {b.describe()}")
                self.driver[r] = b
                if b.kind == 'ff':
                    self.ff_nets.add(r)
        if self.find(self.reset) in self.driver:
            raise ModelFault("the design drives its own reset")

    # -- lookup by hierarchical path ('s.ctrl.head', 's.dpath.queue.regs[1]')
    def lookup(self, path):
        e = ast.parse(path, mode='eval').body

        def res(x):
            if isinstance(x, ast.Name):
                if x.id != 's':
                    raise AnalysisError(f"bad path {path}")
                return self.top
            if isinstance(x, ast.Attribute):
                b = res(x.value)
                if isinstance(b, Inst):
                    if x.attr == 'reset' and not b.is_ifc:
                        return self.reset
                    return get_attr(self, b, x.attr, path)
                raise AnalysisError(f"anchor vanished: {path} (no such signal in {self.top.clsname})")
            if isinstance(x, ast.Subscript):
                b = res(x.value)
                i = ast.literal_eval(x.slice)
                if isinstance(b, list) and 0 <= i < len(b):
                    return b[i]
            raise AnalysisError(f"anchor vanished: {path} (no such signal in {self.top.clsname})")
        return res(e)

    def has(self, path):
        try:
            self.lookup(path)
            return True
        except AnalysisError:
            return False

    def registers(self):
        """one representative Sig per register net (ff-driven)"""
        return sorted(self.ff_nets, key=lambda s: s.name)

    def free_nets(self):
        """nets without a driver (inputs of the design), reset excluded"""
        out, seen = [], set()
        for s in self.sigs:
            r = self.find(s)
            if r in seen or r is self.find(self.reset):
                continue
            seen.add(r)
            if r not in self.driver:
                out.append(r)
        return out

    def net_name(self, s):
        return '='.join(sorted(x.name for x in self.members(s)))


def get_attr(nl, inst, attr, where=''):
    if attr in inst.attrs:
        return inst.attrs[attr]
    if inst.dynamic and attr in DYNAMIC_IFC_PORTS:
        kind, nbits = DYNAMIC_IFC_PORTS[attr]
        s = nl.new_sig(kind, nbits)
        s.owner, s.leaf = inst, attr
        inst.attrs[attr] = s
        return s
    raise AnalysisError(f"anchor vanished: {inst.path} ({inst.clsname}) has no attribute {attr} {where}")


# ---------------------------------------------------------------------------
# elaboration of construct
class _CEval(Evaluator):
    """evaluates construct-time expressions (concrete parameters, DSL object construction)"""
    def __init__(self, elab, nl, ctx):
        super().__init__({}, arith=True)
        self.elab, self.nl, self.ctx = elab, nl, ctx

    def ev_Name(self, e):
        n = e.id
        c = self.ctx
        if n == c.selfname:
            return c.inst
        if n in c.env:
            return c.env[n]
        if n in ('True', 'False', 'None'):
            return {'True': True, 'False': False, 'None': None}[n]
        if n in _SIGCTORS:
            return SigCtor(_SIGCTORS[n])
        m = _BITS_RE.match(n)
        if m:
            return TypeVal(int(m.group(1)))
        if n in _BUILTINS:
            return _BUILTINS[n]
        if n in ('connect', 'connect_pairs', 'hasattr', 'setattr', 'getattr'):
            return Builtin(n, None)
        if n == 'str':
            return Builtin('str', str)
        r = self.elab.repo.resolve(c.mod, n)
        if r is not None and isinstance(r[1], ast.ClassDef):
            return ClassRef(r[0], r[1])
        if r is not None and isinstance(r[1], ast.FunctionDef) and r[1] in r[0].tree.body:
            return FuncRef(r[0], r[1])
        if r is not None and isinstance(r[1], ast.expr):
            return self.elab.global_value(r[0], n, r[1])
        if r is None and n.endswith('Ifc'):
            # an interface class the repository does not define / export (valrdy_queues.py): ports on demand
            self.nl.notes.append(f"{c.mod.rel}: interface class {n} cannot be resolved inside the repository "
                                 f"(the module cannot be imported); its ports are modelled from the frozen val/rdy table")
            return ClassRef(None, n)
        raise AnalysisError(f"name outside the construct model: {n} in {c.mod.rel}:{c.inst.clsname}")

    def ev_Attribute(self, e):
        b = self.ev(e.value)
        if isinstance(b, Inst):
            if e.attr == 'reset' and not b.is_ifc:
                return self.nl.reset
            return get_attr(self.nl, b, e.attr, f"(in {self.ctx.inst.clsname}.construct)")
        raise AnalysisError(f"attribute outside the construct model: {norm(e)}")

    def ev_Dict(self, e):
        if any(k is None for k in e.keys):
            raise AnalysisError(f"dict display outside the construct model: {norm(e)}")
        return {self.ev(k): self.ev(v) for k, v in zip(e.keys, e.values)}

    def ev_Subscript(self, e):
        b = self.ev(e.value)
        i = self.ev(e.slice)
        if isinstance(b, dict):
            try:
                return b[i]
            except (KeyError, TypeError):
                raise ModelFault(f"key {i!r} not found in `{norm(e.value)}` ({norm(e)})")
        if isinstance(b, (list, tuple)) and isinstance(i, int) and not isinstance(i, bool):
            if not -len(b) <= i < len(b):
                raise ModelFault(f"index {i} out of range in {norm(e)}")
            return b[i]
        raise AnalysisError(f"subscript outside the construct model: {norm(e)}")

    def ev_List(self, e):
        return [self.ev(x) for x in e.elts]

    def ev_ListComp(self, e):
        if len(e.generators) != 1 or e.generators[0].ifs or not isinstance(e.generators[0].target, ast.Name):
            raise AnalysisError(f"comprehension outside the construct model: {norm(e)}")
        g = e.generators[0]
        it = self.ev(g.iter)
        if not isinstance(it, range):
            raise AnalysisError(f"comprehension outside the construct model: {norm(e)}")
        out = []
        saved = self.ctx.env.get(g.target.id, self)
        for i in it:
            self.ctx.env[g.target.id] = i
            out.append(self.ev(e.elt))
        if saved is self:
            self.ctx.env.pop(g.target.id, None)
        else:
            self.ctx.env[g.target.id] = saved
        return out

    def ev_Lambda(self, e):
        if e.args.args or e.args.vararg or e.args.kwarg or e.args.kwonlyargs:
            raise AnalysisError(f"lambda with parameters in construct: {norm(e)}")
        return LambdaRef(e, self.ctx)

    def ev_Compare(self, e):
        # `x is None` / `x is not None` on model objects, otherwise ints
        if len(e.ops) == 1 and isinstance(e.ops[0], (ast.Is, ast.IsNot)):
            l, r = self.ev(e.left), self.ev(e.comparators[0])
            same = (l is r) or (l is None and r is None)
            return same if isinstance(e.ops[0], ast.Is) else not same
        return super().ev_Compare(e)

    def ev_Call(self, e):
        f = e.func
        if isinstance(f, ast.Attribute) and f.attr == 'construct' and isinstance(f.value, ast.Call) \
                and norm(f.value.func) == 'super' and not f.value.args:
            args, kwargs = self._args(e)
            self.elab.run_construct(self.nl, self.ctx.inst, self.ctx.mod, self.ctx.cls, args, kwargs,
                                    after=self.ctx.cls)
            return None
        fn = self.ev(f)
        args, kwargs = self._args(e)
        if isinstance(fn, SigCtor):
            if kwargs or len(args) > 1:
                raise AnalysisError(f"signal declaration outside the model: {norm(e)}")
            t = args[0] if args else 1
            if isinstance(t, TypeVal):
                nbits = t.nbits
            elif isinstance(t, int) and not isinstance(t, bool) and t >= 1:
                nbits = t
            else:
                raise AnalysisError(f"signal type outside the model: {norm(e)}")
            return self.nl.new_sig(fn.kind, nbits)
        if isinstance(fn, TypeVal):
            return cast(fn, args, kwargs, norm(e))
        if isinstance(fn, ClassRef):
            return self.elab.instantiate(self.nl, fn, args, kwargs)
        if isinstance(fn, FuncRef):
            return self.elab.call_function(self.nl, fn, args, kwargs)
        if isinstance(fn, Builtin):
            if fn.name == 'connect':
                if len(args) != 2 or kwargs:
                    raise AnalysisError(f"connect with {len(args)} arguments")
                self.elab.connect(self.nl, args[0], args[1], self.ctx)
                return None
            if fn.name in ('hasattr', 'setattr', 'getattr'):
                # attribute bookkeeping on a model object (e.g. naming an inserted adapter on its parent)
                if kwargs or len(args) < 2 or not isinstance(args[0], Inst) or not isinstance(args[1], str):
                    raise AnalysisError(f"{fn.name} outside the construct model: {norm(e)}")
                obj, name = args[0], args[1]
                if fn.name == 'hasattr' and len(args) == 2:
                    return name in obj.attrs
                if fn.name == 'setattr' and len(args) == 3:
                    self.elab._adopt(obj, name, args[2])
                    obj.attrs[name] = args[2]
                    return None
                if fn.name == 'getattr' and len(args) in (2, 3):
                    if name in obj.attrs:
                        return obj.attrs[name]
                    if len(args) == 3:
                        return args[2]
                    raise ModelFault(f"{obj.path} has no attribute {name} ({norm(e)})")
                raise AnalysisError(f"{fn.name} outside the construct model: {norm(e)}")
            if fn.name == 'connect_pairs':
                if len(args) % 2 or kwargs:
                    raise ModelFault(f"connect_pairs with an odd number of arguments: {norm(e)}")
                for i in range(0, len(args), 2):
                    self.elab.connect(self.nl, args[i], args[i + 1], self.ctx)
                return None
            if kwargs:
                raise AnalysisError(f"keyword call outside the model: {norm(e)}")
            try:
                return fn.fn(*args)
            except (TypeError, ValueError) as ex:
                raise AnalysisError(f"cannot evaluate {norm(e)}: {ex}")
        raise AnalysisError(f"call outside the construct model: {norm(e)}")

    def _args(self, e):
        args = []
        for a in e.args:
            if isinstance(a, ast.Starred):
                raise AnalysisError(f"star-args outside the model: {norm(e)}")
            args.append(self.ev(a))
        kwargs = {}
        for k in e.keywords:
            if k.arg is None:
                raise AnalysisError(f"**kwargs outside the model: {norm(e)}")
            kwargs[k.arg] = self.ev(k.value)
        return args, kwargs


def cast(tv, args, kwargs, what):
    if kwargs or len(args) > 1:
        raise AnalysisError(f"type constructor call outside the model: {what}")
    if tv.nbits == 'data':
        if args:
            if isinstance(args[0], Tok):
                return args[0]
            raise AnalysisError(f"message constructed from a value: {what}")
        return Tok('default')
    v = args[0] if args else 0
    if isinstance(v, BV):
        if v.n != tv.nbits:
            raise ModelFault(f"Bits{tv.nbits}( Bits{v.n} value ) in {what}")
        return v
    if isinstance(v, bool):
        v = int(v)
    if isinstance(v, int):
        if v < 0 or v >= (1 << tv.nbits):
            raise ModelFault(f"constant {v} does not fit Bits{tv.nbits} in {what}")
        return BV(v, tv.nbits)
    raise AnalysisError(f"type constructor call outside the model: {what}")


class Elaborator:
    def __init__(self, repo):
        self.repo = repo
        self._kinds = {}
        self.globals = {}        # (module rel, name) -> module-level mutable object, persists while keep_state
        self.touched = set()     # module-level mutable objects read / written during the last build
        self._depth = 0

    def build(self, rel, clsname, *args, keep_state=False, **kwargs):
        """keep_state: module-level mutable state written by helper functions survives from the previous builds
        (construction history); by default every build starts from the initial module state"""
        if not keep_state:
            self.globals = {}
        self.touched = set()
        mod = self.repo.mod(rel)
        cls = mod.get_class(clsname)
        nl = Netlist()
        nl.top = self.instantiate(nl, ClassRef(mod, cls), list(args), dict(kwargs))
        self._static_writes(nl)
        nl.finalize()
        return nl

    # -- module-level state and helper functions
    def global_value(self, mod, name, expr):
        key = (mod.rel, name)
        if key in self.globals:
            self.touched.add(key)
            return self.globals[key]
        if isinstance(expr, (ast.Dict, ast.List, ast.Set)) or \
                (isinstance(expr, ast.Call) and norm(expr.func) in ('dict', 'list', 'set') and not expr.args and not expr.keywords):
            try:
                v = ast.literal_eval(expr) if not isinstance(expr, ast.Call) else {'dict': dict, 'list': list, 'set': set}[norm(expr.func)]()
            except Exception:
                raise AnalysisError(f"module-level initialiser outside the model: {name} = {norm(expr)} in {mod.rel}")
            self.globals[key] = v
            self.touched.add(key)
            return v
        try:
            v = ast.literal_eval(expr)
        except Exception:
            raise AnalysisError(f"module-level name outside the construct model: {name} = {norm(expr)[:60]} in {mod.rel}")
        if isinstance(v, (int, str, bool, type(None), tuple)):
            return v
        raise AnalysisError(f"module-level name outside the construct model: {name} in {mod.rel}")

    def call_function(self, nl, fref, args, kwargs):
        """interpret a module-level helper function called from construct (assignments, if, return; module-level
        containers are read / written in place)"""
        fn = fref.node
        if fn.decorator_list or self._depth > 8:
            raise AnalysisError(f"helper function {fn.name} in {fref.mod.rel} is outside the model")
        a = fn.args
        if a.vararg or a.kwarg or a.posonlyargs:
            raise AnalysisError(f"signature of helper {fn.name} outside the model")
        env = {}
        ctx = Ctx(None, None, env, fref.mod, None)
        ev = _CEval(self, nl, ctx)
        params = [p.arg for p in a.args]
        if len(args) > len(params):
            raise ModelFault(f"{fn.name} takes {len(params)} positional arguments, {len(args)} given")
        defaults = dict(zip(params[len(params) - len(a.defaults):], a.defaults)) if a.defaults else {}
        kw = dict(kwargs)
        for p, v in zip(params, args):
            env[p] = v
        for p in params[len(args):]:
            if p in kw:
                env[p] = kw.pop(p)
            elif p in defaults:
                env[p] = ev.ev(defaults[p])
            else:
                raise ModelFault(f"{fn.name}: parameter {p} not supplied")
        for p, d in zip(a.kwonlyargs, a.kw_defaults):
            if p.arg in kw:
                env[p.arg] = kw.pop(p.arg)
            elif d is not None:
                env[p.arg] = ev.ev(d)
            else:
                raise ModelFault(f"{fn.name}: keyword parameter {p.arg} not supplied")
        if kw:
            raise ModelFault(f"{fn.name}: unexpected keyword arguments {sorted(kw)}")
        self._depth += 1
        try:
            self._fbody(ev, fn, fn.body)
        except Returned as r:
            return r.value
        finally:
            self._depth -= 1
        return None

    def _fbody(self, ev, fn, stmts):
        for st in stmts:
            if isinstance(st, ast.Expr) and isinstance(st.value, ast.Constant) or isinstance(st, ast.Pass):
                continue
            if isinstance(st, ast.Return):
                raise Returned(None if st.value is None else ev.ev(st.value))
            if isinstance(st, ast.If):
                self._fbody(ev, fn, st.body if ev.ev(st.test) else st.orelse)
                continue
            if isinstance(st, ast.Assert):
                if not ev.ev(st.test):
                    raise ModelFault(f"{fn.name}: assertion `{norm(st.test)}` fails")
                continue
            if isinstance(st, ast.Assign):
                val = ev.ev(st.value)
                for t in st.targets:
                    self._fassign(ev, fn, t, val)
                continue
            raise AnalysisError(f"helper {fn.name}: statement outside the model: {norm(st)[:80]}")

    def _fassign(self, ev, fn, t, val):
        if isinstance(t, ast.Name):
            ev.ctx.env[t.id] = val
        elif isinstance(t, (ast.Tuple, ast.List)):
            vals = list(val) if isinstance(val, (tuple, list)) else None
            if vals is None or len(vals) != len(t.elts):
                raise ModelFault(f"{fn.name}: cannot unpack {val!r} into {norm(t)}")
            for te, v in zip(t.elts, vals):
                self._fassign(ev, fn, te, v)
        elif isinstance(t, ast.Subscript):
            base = ev.ev(t.value)
            if not isinstance(base, (dict, list)):
                raise AnalysisError(f"helper {fn.name}: assignment target outside the model: {norm(t)}")
            try:
                base[ev.ev(t.slice)] = val
            except (TypeError, IndexError) as ex:
                raise ModelFault(f"{fn.name}: {norm(t)}: {ex}")
        else:
            raise AnalysisError(f"helper {fn.name}: assignment target outside the model: {norm(t)}")

    def kind_of(self, mod, cls):
        key = (mod.rel, cls.name)
        if key not in self._kinds:
            names = [c.name for _, c in self.repo.mro(mod, cls)]
            if 'Interface' in names:
                k = 'ifc'
            elif 'Component' in names or any(n.startswith('ComponentLevel') for n in names):
                k = 'comp'
            else:
                raise AnalysisError(f"{cls.name} in {mod.rel} is neither a Component nor an Interface")
            self._kinds[key] = k
        return self._kinds[key]

    def instantiate(self, nl, cref, args, kwargs):
        if cref.mod is None:
            return Inst(None, None, True, dynamic=True)
        inst = Inst(cref.mod, cref.cls, self.kind_of(cref.mod, cref.cls) == 'ifc')
        self.run_construct(nl, inst, cref.mod, cref.cls, args, kwargs)
        return inst

    def run_construct(self, nl, inst, mod, cls, args, kwargs, after=None):
        found = self.repo.lookup_method(mod, cls, 'construct', after=after)
        if found is None:
            raise AnalysisError(f"anchor vanished: no construct for {cls.name} in {mod.rel}")
        fm, fc, fn = found
        a = fn.args
        if a.vararg or a.kwarg or a.posonlyargs or not a.args:
            if fc.name.startswith('ComponentLevel') or fc.name in ('Component', 'Interface', 'NamedObject'):
                raise AnalysisError(f"anchor vanished: {cls.name} in {mod.rel} defines no construct")
            raise AnalysisError(f"construct signature outside the model: {fc.name}")
        selfname = a.args[0].arg
        env = {}
        ctx = Ctx(inst, selfname, env, fm, fc)
        ev = _CEval(self, nl, ctx)
        params = [p.arg for p in a.args[1:]]
        if len(args) > len(params):
            raise ModelFault(f"{fc.name}.construct takes {len(params)} positional arguments, {len(args)} given")
        defaults = dict(zip(params[len(params) - len(a.defaults):], a.defaults)) if a.defaults else {}
        for p, v in zip(params, args):
            env[p] = v
        kw = dict(kwargs)
        for p in params[len(args):]:
            if p in kw:
                env[p] = kw.pop(p)
            elif p in defaults:
                env[p] = ev.ev(defaults[p])
            else:
                raise ModelFault(f"{fc.name}.construct: parameter {p} not supplied")
        for p, d in zip(a.kwonlyargs, a.kw_defaults):
            if p.arg in kw:
                env[p.arg] = kw.pop(p.arg)
            elif d is not None:
                env[p.arg] = ev.ev(d)
            else:
                raise ModelFault(f"{fc.name}.construct: keyword parameter {p.arg} not supplied")
        if kw:
            raise ModelFault(f"{fc.name}.construct: unexpected keyword arguments {sorted(kw)}")
        self._body(nl, ev, fn.body)

    def run_snippet(self, mod, cls, stmts, make_env, selfname, skip=None):
        """interpret a statement list (e.g. one branch of an interface's connect method) as construct-time code.
        make_env(elab, nl) -> (env dict, instance bound to the self name); `skip(stmt)` names bookkeeping statements
        that are ignored.  Returns (netlist, env)."""
        nl = Netlist()
        self.globals = {}
        self.touched = set()
        env, selfinst = make_env(self, nl)
        nl.top = selfinst
        ctx = Ctx(selfinst, selfname, env, mod, cls)
        ev = _CEval(self, nl, ctx)
        for st in stmts:
            if skip is not None and skip(st):
                continue
            self._body(nl, ev, [st])
        for k, v in env.items():       # readable names for local / foreign instances
            if isinstance(v, Inst) and v.parent is None and v.name is None and v is not selfinst:
                v.parent, v.name = selfinst, k
        self._static_writes(nl)
        nl.finalize()
        return nl, env

    # -- statements of construct
    def _body(self, nl, ev, stmts):
        ctx = ev.ctx
        for st in stmts:
            if isinstance(st, ast.Expr) and isinstance(st.value, ast.Constant):
                continue
            if isinstance(st, ast.Pass):
                continue
            if isinstance(st, ast.Assert):
                if not ev.ev(st.test):
                    raise ModelFault(f"{ctx.inst.clsname}.construct: assertion `{norm(st.test)}` fails for the "
                                     f"parameters under analysis")
                continue
            if isinstance(st, ast.If):
                self._body(nl, ev, st.body if ev.ev(st.test) else st.orelse)
                continue
            if isinstance(st, ast.Assign):
                try:
                    val = ev.ev(st.value)
                except AnalysisError:
                    # bookkeeping attributes of interfaces (s.trace_len = len(str(Type()))) are irrelevant
                    if all(isinstance(t, ast.Attribute) for t in st.targets) and ctx.inst.is_ifc:
                        continue
                    raise
                for t in st.targets:
                    self._assign(nl, ev, t, val)
                continue
            if isinstance(st, ast.AugAssign) and isinstance(st.op, ast.FloorDiv):
                self.connect(nl, ev.ev(st.target), ev.ev(st.value), ctx)
                continue
            if isinstance(st, ast.AugAssign) and isinstance(st.op, (ast.Add, ast.Sub)):
                cur, inc = ev.ev(st.target), ev.ev(st.value)
                if not all(isinstance(x, int) and not isinstance(x, bool) for x in (cur, inc)):
                    raise AnalysisError(f"{ctx.inst.clsname}: augmented assignment outside the model: {norm(st)}")
                self._assign(nl, ev, st.target, cur + inc if isinstance(st.op, ast.Add) else cur - inc)
                continue
            if isinstance(st, ast.Expr) and isinstance(st.value, ast.Call):
                ev.ev(st.value)
                continue
            if isinstance(st, ast.FunctionDef):
                decos = [norm(d) for d in st.decorator_list]
                if decos == ['update']:
                    kind = 'comb'
                elif decos == ['update_ff']:
                    kind = 'ff'
                else:
                    raise AnalysisError(f"{ctx.inst.clsname}.construct: nested function {st.name} with decorators "
                                        f"{decos} is outside the model")
                if st.args.args or st.args.vararg or st.args.kwarg:
                    raise AnalysisError(f"update block {st.name} takes parameters")
                nl.blocks.append(Block(kind, ctx, st, st.name))
                ctx.env[st.name] = None
                continue
            raise AnalysisError(f"{ctx.inst.clsname}.construct: statement outside the model: {norm(st)[:80]}")

    def _assign(self, nl, ev, target, val):
        ctx = ev.ctx
        if isinstance(target, ast.Name):
            ctx.env[target.id] = val
            return
        if isinstance(target, ast.Attribute):
            base = ev.ev(target.value)
            if not isinstance(base, Inst):
                raise AnalysisError(f"assignment target outside the model: {norm(target)}")
            self._adopt(base, target.attr, val)
            base.attrs[target.attr] = val
            return
        if isinstance(target, (ast.Tuple, ast.List)):
            if not isinstance(val, (tuple, list)) or len(val) != len(target.elts):
                raise ModelFault(f"{ctx.inst.clsname}.construct: cannot unpack {val!r} into {norm(target)}")
            for te, v in zip(target.elts, val):
                self._assign(nl, ev, te, v)
            return
        raise AnalysisError(f"assignment target outside the model: {norm(target)}")

    def _adopt(self, inst, attr, val):
        if isinstance(val, Sig) and val.owner is None:
            val.owner, val.leaf = inst, attr
        elif isinstance(val, Inst) and val.parent is None and val.name is None:
            val.parent, val.name = inst, attr
        elif isinstance(val, list):
            for i, x in enumerate(val):
                self._adopt(inst, f"{attr}[{i}]", x)

    # -- connections
    def connect(self, nl, a, b, ctx):
        if isinstance(a, LambdaRef) and isinstance(b, Sig):
            a, b = b, a
        if isinstance(a, Sig) and isinstance(b, LambdaRef):
            blk = Block('lambda', b.ctx, b.node.body, f"<lambda driving {a.leaf}>", target=a)
            blk.writes = [a]
            nl.blocks.append(blk)
            return
        if isinstance(a, Sig) and isinstance(b, Sig):
            nl.union(a, b)
            return
        if isinstance(a, Inst) and isinstance(b, Inst):
            if not (a.is_ifc and b.is_ifc):
                raise AnalysisError(f"connection of component instances {a.path} and {b.path}")
            names = lambda i: {k for k, v in i.attrs.items() if isinstance(v, (Sig, Inst, list))}
            na, nb = names(a), names(b)
            if a.dynamic and not b.dynamic:
                na = nb
            if b.dynamic and not a.dynamic:
                nb = na
            if na != nb or not na:
                raise ModelFault(f"interfaces {a.path} ({a.clsname}) and {b.path} ({b.clsname}) have different ports: "
                                 f"{sorted(na)} vs {sorted(nb)}")
            for k in sorted(na):
                self.connect(nl, get_attr(nl, a, k), get_attr(nl, b, k), ctx)
            return
        if isinstance(a, list) and isinstance(b, list):
            if len(a) != len(b):
                raise ModelFault("connection of signal lists of different length")
            for x, y in zip(a, b):
                self.connect(nl, x, y, ctx)
            return
        for x, y in ((a, b), (b, a)):
            if isinstance(x, Sig) and isinstance(y, (int, BV)) and not isinstance(y, bool):
                blk = Block('const', ctx, None, f"<constant driving {x.leaf}>", target=x, const=fit(y, x.nbits, x.name))
                blk.writes = [x]
                nl.blocks.append(blk)
                return
        raise AnalysisError(f"connection outside the model: {a!r} with {b!r} in {ctx.inst.clsname}.construct")

    # -- static write sets of the update blocks
    def _static_writes(self, nl):
        for b in nl.blocks:
            if b.kind not in ('comb', 'ff'):
                continue
            other = ast.LShift if b.kind == 'comb' else ast.MatMult
            seen = []
            for n in walk_no_nested(b.node):
                if isinstance(n, ast.AugAssign) and isinstance(n.op, (ast.MatMult, ast.LShift)):
                    tg = self._static_target(nl, b, n.target)
                    if tg is None:
                        if isinstance(n.op, ast.LShift):
                            continue      # a shift of a temporary
                        raise AnalysisError(f"{b.qual}: target of @= is not a signal: {norm(n.target)}")
                    if isinstance(n.op, other):
                        raise ModelFault(f"{b.qual}: `{norm(n)}` uses the "
                                         f"{'non-blocking' if b.kind == 'comb' else 'blocking'} assignment inside an "
                                         f"{'update' if b.kind == 'comb' else 'update_ff'} block")
                    for s in tg:
                        if not any(s is x for x in seen):
                            seen.append(s)
                elif isinstance(n, ast.Assign):
                    for t in n.targets:
                        if not isinstance(t, ast.Name):
                            raise AnalysisError(f"{b.qual}: plain assignment to {norm(t)} inside an update block")
            b.writes = seen

    def _static_target(self, nl, blk, e):
        c = blk.ctx

        def res(x):
            if isinstance(x, ast.Name):
                if x.id == c.selfname:
                    return c.inst
                v = c.env.get(x.id)
                return v if isinstance(v, (Inst, Sig, list)) else None
            if isinstance(x, ast.Attribute):
                b = res(x.value)
                if isinstance(b, Inst):
                    if x.attr == 'reset' and not b.is_ifc:
                        return nl.reset
                    return get_attr(nl, b, x.attr, f"(in {blk.qual})")
                return None
            if isinstance(x, ast.Subscript):
                b = res(x.value)
                if isinstance(b, list):
                    if isinstance(x.slice, ast.Constant) and isinstance(x.slice.value, int):
                        return b[x.slice.value] if -len(b) <= x.slice.value < len(b) else None
                    return b
                if isinstance(b, Sig):
                    raise AnalysisError(f"{blk.qual}: bit-slice assignment {norm(x)} is outside the model")
                return None
            return None
        r = res(e)
        if r is None:
            return None
        out = []

        def flat(v):
            if isinstance(v, Sig):
                out.append(v)
            elif isinstance(v, list):
                for y in v:
                    flat(y)
            else:
                raise AnalysisError(f"{blk.qual}: assignment target {norm(e)} is not a signal")
        flat(r)
        return out


# ---------------------------------------------------------------------------
# one-cycle abstract evaluation
class _BEval(Evaluator):
    """evaluates expressions / statements of a lambda or update block against a Sim"""
    def __init__(self, sim, blk):
        super().__init__({}, arith=True)
        self.sim, self.blk, self.ctx = sim, blk, blk.ctx
        self.local = {}

    # raw object of a name / attribute chain (Sig objects are not read)
    def obj(self, e):
        c = self.ctx
        if isinstance(e, ast.Name):
            if e.id in self.local:
                return self.local[e.id]
            if e.id == c.selfname:
                return c.inst
            if e.id in c.env:
                v = c.env[e.id]
                if v is None and e.id not in ('None',):
                    pass
                return v
            if e.id in ('True', 'False', 'None'):
                return {'True': True, 'False': False, 'None': None}[e.id]
            m = _BITS_RE.match(e.id)
            if m:
                return TypeVal(int(m.group(1)))
            if e.id in ('zext', 'trunc', 'sext'):
                return Builtin(e.id, None)
            raise AnalysisError(f"{self.blk.qual}: name outside the block model: {e.id}")
        if isinstance(e, ast.Attribute):
            b = self.obj(e.value)
            if isinstance(b, Inst):
                if e.attr == 'reset' and not b.is_ifc:
                    return self.sim.nl.reset
                return get_attr(self.sim.nl, b, e.attr, f"(in {self.blk.qual})")
            raise AnalysisError(f"{self.blk.qual}: attribute outside the block model: {norm(e)}")
        if isinstance(e, ast.Subscript):
            b = self.obj(e.value)
            if isinstance(b, list):
                i = self.ev(e.slice)
                if isinstance(i, BV):
                    i = i.v
                if not isinstance(i, int) or isinstance(i, bool):
                    raise AnalysisError(f"{self.blk.qual}: index outside the block model: {norm(e)}")
                if not 0 <= i < len(b):
                    raise ModelFault(f"index {i} out of range in `{norm(e)}` ({len(b)} elements)")
                return b[i]
            raise AnalysisError(f"{self.blk.qual}: subscript of a non-list used as an object (bit slice as a target or index "
                                f"base?) is outside the block model: {norm(e)}")
        raise AnalysisError(f"{self.blk.qual}: expression outside the block model: {norm(e)}")

    def _val(self, o, e):
        if isinstance(o, Sig):
            return self.sim.read(o, self.blk)
        if isinstance(o, (BV, Tok, TypeVal, Builtin)) or (isinstance(o, int) and not isinstance(o, bool)):
            return o
        if isinstance(o, bool):
            return int(o)
        raise AnalysisError(f"{self.blk.qual}: value outside the block model: {norm(e)} = {o!r}")

    def ev_Name(self, e): return self._val(self.obj(e), e)
    def ev_Attribute(self, e): return self._val(self.obj(e), e)

    def ev_Subscript(self, e):
        base = self.obj(e.value) if isinstance(e.value, (ast.Name, ast.Attribute, ast.Subscript)) else self.ev(e.value)
        if isinstance(base, list):
            return self._val(self.obj(e), e)
        v = self._val(base, e.value)
        if not isinstance(v, BV):
            raise AnalysisError(f"{self.blk.qual}: subscript outside the block model: {norm(e)}")
        # bit index / bit slice of a Bits value (documented semantics: x[i] is bit i, x[a:b] are bits a..b-1)
        def idx(x):
            i = self.ev(x)
            i = i.v if isinstance(i, BV) else i
            if not isinstance(i, int) or isinstance(i, bool):
                raise AnalysisError(f"{self.blk.qual}: bit index outside the block model: {norm(e)}")
            return i
        if isinstance(e.slice, ast.Slice):
            if e.slice.step is not None or e.slice.lower is None or e.slice.upper is None:
                raise AnalysisError(f"{self.blk.qual}: bit slice outside the block model: {norm(e)}")
            lo, hi = idx(e.slice.lower), idx(e.slice.upper)
            if not 0 <= lo < hi <= v.n:
                raise ModelFault(f"bit slice [{lo}:{hi}] out of range for Bits{v.n} in `{norm(e)}`")
            return BV(v.v >> lo, hi - lo)
        i = idx(e.slice)
        if not 0 <= i < v.n:
            raise ModelFault(f"bit index {i} out of range for Bits{v.n} in `{norm(e)}`")
        return BV((v.v >> i) & 1, 1)

    def ev_Constant(self, e):
        if isinstance(e.value, bool):
            return int(e.value)
        if isinstance(e.value, int):
            return e.value
        raise AnalysisError(f"{self.blk.qual}: constant outside the block model: {e.value!r}")

    def ev_Compare(self, e):
        left = self.ev(e.left)
        res = True
        for op, rt in zip(e.ops, e.comparators):
            right = self.ev(rt)
            if isinstance(left, Tok) or isinstance(right, Tok):
                raise AnalysisError(f"{self.blk.qual}: comparison of message values: {norm(e)}")
            a, b = left, right
            if isinstance(a, BV):
                b = a._o(b)
                a = a.v
            elif isinstance(b, BV):
                a = b._o(a)
                b = b.v
            fn = {ast.Lt: lambda x, y: x < y, ast.LtE: lambda x, y: x <= y, ast.Gt: lambda x, y: x > y,
                  ast.GtE: lambda x, y: x >= y, ast.Eq: lambda x, y: x == y, ast.NotEq: lambda x, y: x != y}.get(type(op))
            if fn is None:
                raise AnalysisError(f"{self.blk.qual}: comparison outside the block model: {norm(e)}")
            res = res and fn(a, b)
            left = right
        return BV(1 if res else 0, 1)

    def ev_UnaryOp(self, e):
        v = self.ev(e.operand)
        if isinstance(e.op, ast.Invert):
            if isinstance(v, BV):
                return ~v
            raise AnalysisError(f"{self.blk.qual}: `~` applied to a non-Bits value: {norm(e)}")
        if isinstance(e.op, ast.Not):
            return BV(0 if v else 1, 1)
        raise AnalysisError(f"{self.blk.qual}: unary operator outside the block model: {norm(e)}")

    def ev_BinOp(self, e):
        if not isinstance(e.op, (ast.Add, ast.Sub, ast.BitAnd, ast.BitOr, ast.BitXor)):
            raise AnalysisError(f"{self.blk.qual}: operator outside the block model: {norm(e)}")
        l, r = self.ev(e.left), self.ev(e.right)
        if isinstance(l, Tok) or isinstance(r, Tok):
            raise AnalysisError(f"{self.blk.qual}: arithmetic on a message value: {norm(e)}")
        if not isinstance(l, (BV, int)) or not isinstance(r, (BV, int)):
            raise AnalysisError(f"{self.blk.qual}: operand outside the block model: {norm(e)}")
        if isinstance(l, bool) or isinstance(r, bool):
            l, r = (int(l) if isinstance(l, bool) else l), (int(r) if isinstance(r, bool) else r)
        if isinstance(e.op, ast.Add):
            return l + r
        if isinstance(e.op, ast.Sub):
            return l - r
        if isinstance(e.op, ast.BitAnd):
            return l & r
        if isinstance(e.op, ast.BitOr):
            return l | r
        return l ^ r

    def ev_BoolOp(self, e):
        vals = [bool(self.ev(x)) for x in e.values]     # no short-circuit needed: expressions are pure
        return BV(int(all(vals) if isinstance(e.op, ast.And) else any(vals)), 1)

    def ev_Call(self, e):
        fn = self.obj(e.func) if isinstance(e.func, (ast.Name, ast.Attribute)) else None
        if e.keywords:
            raise AnalysisError(f"{self.blk.qual}: keyword call outside the block model: {norm(e)}")
        args = [self.ev(a) for a in e.args]
        if isinstance(fn, TypeVal):
            return cast(fn, args, {}, norm(e))
        if isinstance(fn, Builtin) and fn.name in ('zext', 'trunc') and len(args) == 2:
            v, t = args
            n = t.nbits if isinstance(t, TypeVal) else t
            if not isinstance(v, BV) or not isinstance(n, int):
                raise AnalysisError(f"{self.blk.qual}: {norm(e)} outside the block model")
            if fn.name == 'zext':
                if n < v.n:
                    raise ModelFault(f"zext to a narrower type in {norm(e)}")
                return BV(v.v, n)
            if n > v.n:
                raise ModelFault(f"trunc to a wider type in {norm(e)}")
            return BV(v.v, n)
        raise AnalysisError(f"{self.blk.qual}: call outside the block model: {norm(e)}")

    # statements
    def run_block(self, stmts):
        for st in stmts:
            if isinstance(st, ast.If):
                self.run_block(st.body if self.ev(st.test) else st.orelse)
            elif isinstance(st, ast.AugAssign) and isinstance(st.op, (ast.MatMult, ast.LShift)):
                tgt = self.obj(st.target)
                if not isinstance(tgt, Sig):
                    raise AnalysisError(f"{self.blk.qual}: `{norm(st)}`: target is not a signal")
                self.sim.write(tgt, self.ev(st.value), self.blk, st)
            elif isinstance(st, ast.For):
                if st.orelse or not isinstance(st.target, ast.Name):
                    raise AnalysisError(f"{self.blk.qual}: loop outside the block model: {norm(st)[:60]}")
                if not (isinstance(st.iter, ast.Call) and norm(st.iter.func) == 'range' and not st.iter.keywords):
                    raise AnalysisError(f"{self.blk.qual}: loop outside the block model: {norm(st)[:60]}")
                bounds = [self.ev(a) for a in st.iter.args]
                bounds = [b.v if isinstance(b, BV) else b for b in bounds]
                for i in range(*bounds):
                    self.local[st.target.id] = i
                    self.run_block(st.body)
            elif isinstance(st, ast.Assign) and len(st.targets) == 1 and isinstance(st.targets[0], ast.Name):
                self.local[st.targets[0].id] = self.ev(st.value)
            elif isinstance(st, ast.Pass) or (isinstance(st, ast.Expr) and isinstance(st.value, ast.Constant)):
                pass
            else:
                raise AnalysisError(f"{self.blk.qual}: statement outside the block model: {norm(st)[:80]}")


class Sim:
    """one cycle of a netlist.  state / inputs: dict Sig (any member of the net) -> value"""
    def __init__(self, nl, state, inputs, reset=0):
        self.nl = nl
        self.state = {nl.find(k): v for k, v in state.items()}
        self.inputs = {nl.find(k): v for k, v in inputs.items()}
        self.inputs[nl.find(nl.reset)] = BV(reset, 1)
        self.val = {}
        self.running = []
        self.pending = None
        self.evals = 0

    def read(self, sig, by=None):
        nl = self.nl
        r = nl.find(sig)
        if r in self.val:
            v = self.val[r]
            if v is UNASSIGNED:
                raise ModelFault(f"{sig.name} is read but its update block assigns it on no path for this valuation "
                                 f"(latch)")
            return v
        d = nl.driver.get(r)
        if d is None:
            if r not in self.inputs:
                raise ModelFault(f"signal {nl.net_name(r)} is read{' by ' + by.describe() if by else ''} but nothing drives it")
            v = fit(self.inputs[r], r.nbits, sig.name)
        elif d.kind == 'ff':
            if r not in self.state:
                raise AnalysisError(f"register {nl.net_name(r)} is not part of the enumerated abstract state")
            v = fit(self.state[r], r.nbits, sig.name)
        elif d.kind == 'const':
            v = d.const
        elif d.kind == 'lambda':
            if d in self.running:
                raise ModelFault(f"combinational loop through {nl.net_name(r)}")
            self.running.append(d)
            self.evals += 1
            v = fit(_BEval(self, d).ev(d.node), r.nbits, sig.name)
            self.running.pop()
        else:
            if d in self.running:
                raise ModelFault(f"{sig.name} is read before update block {d.name} has assigned it "
                                 f"(combinational loop / read of a stale value)")
            self.running.append(d)
            self.evals += 1
            _BEval(self, d).run_block(d.node.body)
            self.running.pop()
            for w in d.writes:
                self.val.setdefault(nl.find(w), UNASSIGNED)
            return self.read(sig, by)
        self.val[r] = v
        return v

    def write(self, sig, value, blk, st):
        r = self.nl.find(sig)
        v = fit(value, r.nbits, sig.name)
        if blk.kind == 'ff':
            if self.pending is None:
                raise AnalysisError("non-blocking assignment outside the sequential phase")
            self.pending[r] = v
        elif blk.kind == 'comb':
            if self.nl.driver.get(r) is not blk:
                raise AnalysisError(f"{blk.qual}: dynamic write to {sig.name} outside the static write set")
            self.val[r] = v
        else:
            raise AnalysisError("assignment inside a lambda")

    def step(self):
        """next register contents (dict root Sig -> value) after the clock edge"""
        nxt = dict(self.state)
        for b in self.nl.blocks:
            if b.kind != 'ff':
                continue
            self.pending = {}
            self.running.append(b)
            self.evals += 1
            _BEval(self, b).run_block(b.node.body)
            self.running.pop()
            nxt.update(self.pending)
            self.pending = None
        return nxt


def signature(nl):
    """structural signature of an elaborated design: constants, signal types, block counts (keyed by hierarchical
    path) -- two elaborations of the same class with the same parameters must agree on it"""
    out = {}

    def walk(inst):
        for k, v in sorted(inst.attrs.items()):
            path = f"{inst.path}.{k}"
            if isinstance(v, Inst):
                out[path] = f"<{v.clsname}>"
                walk(v)
            elif isinstance(v, Sig):
                out[path] = f"{v.kind}:{v.nbits}"
            elif isinstance(v, list):
                out[path] = '[' + ','.join(f"{x.kind}:{x.nbits}" if isinstance(x, Sig) else repr(x) for x in v) + ']'
            elif isinstance(v, BV):
                out[path] = f"Bits{v.n}({v.v})"
            elif isinstance(v, (int, str, bool, type(None), Tok, TypeVal, tuple)):
                out[path] = repr(v)
    walk(nl.top)
    out['<blocks>'] = str(sorted((b.kind, b.name) for b in nl.blocks))
    return out
