"""Template / sequence domain: symbolic evaluation of *source-text generators*.

The bitstruct methods of pymtl3 are produced by ordinary Python functions that build
source text (f-strings, lists of statement strings, ','.join, recursion over the shape
of a field type).  This module evaluates such a generator *symbolically*:

* parameters are symbols; the type that a recursive helper dispatches on is assumed to be
  of one of the three kinds  list / struct / bits  (an exhaustive case split, the three
  kinds are what `_check_field_annotation` admits);
* strings are templates with holes (`Tmpl`), lists are sequences of segments (`SeqV`:
  single items, splices of other sequences, `LoopSeg` = "for every element of an iteration
  space, in its order, these segments"), integers are linear forms (`Lin`);
* a `for` loop is executed ONCE with symbolic loop variables: what the body appends to an
  accumulator created outside becomes a `LoopSeg`; a scalar that is re-assigned in the body
  from its previous value becomes a `Fold` (init, step expressed over `Carried`);
* a call of a recursive helper is not unfolded: it yields `Rec(fn, args)` -- the rules
  reason by structural induction on the shape of the type (induction hypothesis = the
  specification of the helper);
* a condition that the case split does not decide forks: scalars become `Phi`, appended
  segments become `CondSeg` (so a *filtering* `if` in a traversal stays visible).

Nothing of the code under analysis is executed and no concrete struct type is ever
instantiated.  A construct outside this vocabulary raises AnalysisError.
"""
import ast
import string

from .astutil import norm, walk_no_nested
from .errors import AnalysisError


# ---------------------------------------------------------------------------
# values
class V:
    __slots__ = ()

    def _k(self):
        return tuple(getattr(self, s) for s in self.__slots__)

    def __eq__(self, o):
        return type(self) is type(o) and self._k() == o._k()

    def __ne__(self, o):
        return not self.__eq__(o)

    def __hash__(self):
        return hash((type(self).__name__,) + self._k())

    def __repr__(self):
        return f"{type(self).__name__}({', '.join(map(repr, self._k()))})"


def _vclass(name, *fields):
    def __init__(self, *a):
        if len(a) != len(fields):
            raise TypeError(f"{name} takes {fields}")
        for f, x in zip(fields, a):
            object.__setattr__(self, f, x)
    return type(name, (V,), {'__slots__': fields, '__init__': __init__})


Sym = _vclass('Sym', 'name')
Const = _vclass('Const', 'value')                  # str / None / bool (ints are Lin)
Tmpl = _vclass('Tmpl', 'parts')                    # tuple of str | V
Join = _vclass('Join', 'sep', 'seq')
SeqV = _vclass('SeqV', 'segs')
DictV = _vclass('DictV', 'name', 'segs')
Item = _vclass('Item', 'v')
Splice = _vclass('Splice', 'v')
LoopSeg = _vclass('LoopSeg', 'loop', 'segs', 'flags')
CondSeg = _vclass('CondSeg', 'test', 'pol', 'segs')
Rev = _vclass('Rev', 'v')
Tup = _vclass('Tup', 'items')
Attr = _vclass('Attr', 'v', 'name')
Sub = _vclass('Sub', 'v', 'idx')
SliceV = _vclass('SliceV', 'lo', 'hi', 'step')
Len = _vclass('Len', 'v')
Innermost = _vclass('Innermost', 'v')             # x = x[0] while isinstance(x, list)
FieldsOf = _vclass('FieldsOf', 'v')               # getattr(T, '__bitstruct_fields__')
RangeSp = _vclass('RangeSp', 'n', 'dir', 'complete', 'desc')
ItemsSp = _vclass('ItemsSp', 'd')
KeysSp = _vclass('KeysSp', 'd')
ValuesSp = _vclass('ValuesSp', 'd')
EnumSp = _vclass('EnumSp', 'v')
SeqSp = _vclass('SeqSp', 'v')
Wrapped = _vclass('Wrapped', 'fn', 'space')       # sorted(...), set(...), slicing: order/completeness lost
Loop = _vclass('Loop', 'id', 'space')
LoopVar = _vclass('LoopVar', 'loop', 'role')      # role: idx / key / val / elem
Carried = _vclass('Carried', 'loop', 'name')
Fold = _vclass('Fold', 'loop', 'name', 'init', 'step')
LastIter = _vclass('LastIter', 'loop', 'v')
Phi = _vclass('Phi', 'test', 'a', 'b')
Rec = _vclass('Rec', 'fn', 'args', 'closure', 'site')
Proj = _vclass('Proj', 'v', 'k')
CallV = _vclass('CallV', 'fn', 'args', 'kwargs')
Bin = _vclass('Bin', 'op', 'l', 'r')
Cmp = _vclass('Cmp', 'op', 'l', 'r')
BoolV = _vclass('BoolV', 'op', 'vals')
Not = _vclass('Not', 'v')
KindTest = _vclass('KindTest', 'kind', 'v')
Fmt = _vclass('Fmt', 'v', 'conv', 'spec')
Fn = _vclass('Fn', 'name', 'args', 'body', 'globs')


class Lin(V):
    """integer linear form  const + sum coeff*atom"""
    __slots__ = ('const', 'terms')

    def __init__(self, const=0, terms=()):
        t = {}
        for a, c in terms:
            t[a] = t.get(a, 0) + c
        object.__setattr__(self, 'const', const)
        object.__setattr__(self, 'terms', tuple(sorted(((a, c) for a, c in t.items() if c), key=lambda x: repr(x[0]))))

    @property
    def is_const(self):
        return not self.terms

    def add(self, o, sign=1):
        return Lin(self.const + sign * o.const, self.terms + tuple((a, sign * c) for a, c in o.terms))

    def scale(self, k):
        return Lin(self.const * k, tuple((a, c * k) for a, c in self.terms))

    def single(self):
        """the atom if the form is exactly 1*atom"""
        if self.const == 0 and len(self.terms) == 1 and self.terms[0][1] == 1:
            return self.terms[0][0]
        return None

    def __repr__(self):
        if self.is_const:
            return str(self.const)
        s = ' + '.join((f"{c}*" if c != 1 else '') + repr(a) for a, c in self.terms)
        return s + (f" + {self.const}" if self.const else '')


def lin(v):
    """coerce to Lin (ints, Lin, or any V used as an integer atom)"""
    if isinstance(v, Lin):
        return v
    if isinstance(v, bool):
        raise AnalysisError("boolean used as integer")
    if isinstance(v, int):
        return Lin(v)
    return Lin(0, ((v, 1),))


def unlin(v):
    if isinstance(v, Lin):
        a = v.single()
        if a is not None:
            return a
    return v


def mk_tmpl(parts):
    out = []
    for p in parts:
        if isinstance(p, Tmpl):
            sub = list(p.parts)
        elif isinstance(p, Const) and isinstance(p.value, str):
            sub = [p.value]
        elif isinstance(p, Lin) and p.is_const:
            sub = [str(p.const)]
        else:
            sub = [unlin(p) if isinstance(p, V) else p]
        for q in sub:
            if isinstance(q, str) and out and isinstance(out[-1], str):
                out[-1] += q
            elif q != '':
                out.append(q)
    return Tmpl(tuple(out))


def tmpl_text(v):
    """python str if the value is a fully literal string, else None"""
    if isinstance(v, Const) and isinstance(v.value, str):
        return v.value
    if isinstance(v, Tmpl):
        if not v.parts:
            return ''
        if len(v.parts) == 1 and isinstance(v.parts[0], str):
            return v.parts[0]
    return None


def is_stringy(v):
    return isinstance(v, (Tmpl, Join, Fmt)) or (isinstance(v, Const) and isinstance(v.value, str))


# mutable accumulators -------------------------------------------------------
class ListObj:
    def __init__(self, segs=()):
        self.segs = list(segs)
        self.captured = 0

    def __repr__(self):
        return f"ListObj({self.segs})"


class DictObj(ListObj):
    name = None


class FuncObj:
    def __init__(self, fdef, env):
        self.fdef, self.env = fdef, env


def freeze(x):
    if isinstance(x, DictObj):
        if x.captured:
            raise AnalysisError("accumulator dict read inside the loop/branch that fills it")
        return DictV(x.name, tuple(x.segs))
    if isinstance(x, ListObj):
        if x.captured:
            raise AnalysisError("accumulator list read inside the loop/branch that fills it")
        return SeqV(tuple(x.segs))
    if isinstance(x, FuncObj):
        return Sym('<function ' + x.fdef.name + '>')
    if isinstance(x, Lin):
        return unlin(x)
    return x


class Env:
    def __init__(self, ev, parent=None):
        self.ev, self.parent, self.vars = ev, parent, {}

    def lookup(self, name):
        e = self
        while e is not None:
            if name in e.vars:
                return e.vars[name]
            e = e.parent
        return self.ev.global_lookup(name)

    def has(self, name):
        e = self
        while e is not None:
            if name in e.vars:
                return True
            e = e.parent
        return False

    def set(self, name, v):
        self.vars[name] = v

    def objects(self):
        seen, out = set(), []
        e = self
        while e is not None:
            for v in e.vars.values():
                for o in _objs_in(v):
                    if id(o) not in seen:
                        seen.add(id(o))
                        out.append(o)
            e = e.parent
        return out


def _objs_in(v):
    if isinstance(v, ListObj):
        yield v
    elif isinstance(v, Tup):
        for x in v.items:
            yield from _objs_in(x)


class _Signal(Exception):
    pass


# ---------------------------------------------------------------------------
class GenEval:
    """one symbolic evaluation (one kind assumption)"""
    MAX_DEPTH = 12

    def __init__(self, module, kind=None, focus=(), field_loops_focus=True):
        self.module = module            # sa.loader.Module
        self.kind = kind                # 'list' | 'struct' | 'bits' | None
        self.focus = set(focus)         # values whose kind is `kind`
        self.field_loops_focus = field_loops_focus
        self.nloops = 0
        self.nsites = 0
        self.loop_flags = {}
        self.loop_stack = []
        self.cond_stack = []
        self.asserts = []               # (test value, loops tuple, conds tuple, node)
        self.stores = []                # (container, key, value, conds tuple)   stores into opaque containers
        self.rec_defs = {}              # name -> FuncObj
        self.fn_defs = {}               # name -> FuncObj of every nested def seen
        self.depth = 0
        self.steps = 0

    # -- names -------------------------------------------------------------
    def global_lookup(self, name):
        m = self.module
        if name in m.functions:
            return FuncObj(m.functions[name], None)
        if name in m.assigns:
            val = m.assigns[name]
            try:
                c = ast.literal_eval(val)
            except Exception:
                return Sym(name)
            if isinstance(c, bool) or c is None or isinstance(c, str):
                return Const(c)
            if isinstance(c, int):
                return Lin(c)
            return Sym(name)
        if name in ('True', 'False', 'None'):
            return Const({'True': True, 'False': False, 'None': None}[name])
        return Sym(name)

    @staticmethod
    def is_recursive(fdef):
        return any(isinstance(n, ast.Call) and isinstance(n.func, ast.Name) and n.func.id == fdef.name
                   for n in ast.walk(fdef))

    # -- kinds ---------------------------------------------------------------
    def is_focus(self, v):
        v = unlin(v)
        if v in self.focus:
            return True
        if self.field_loops_focus:
            sp = v.loop.space if isinstance(v, LoopVar) else None
            while isinstance(sp, Wrapped):
                sp = sp.space
            if isinstance(v, LoopVar) and v.role == 'val' and isinstance(sp, (ItemsSp, ValuesSp)):
                return True
            if isinstance(v, Sub) and isinstance(unlin(v.idx), LoopVar) and unlin(v.idx).role == 'key' \
                    and isinstance(unlin(v.idx).loop.space, KeysSp) and unlin(v.idx).loop.space.d == v.v:
                return True
        return False

    def truth(self, v):
        """True / False / None (undecided)"""
        if isinstance(v, Const):
            return bool(v.value)
        if isinstance(v, Lin) and v.is_const:
            return bool(v.const)
        if isinstance(v, KindTest):
            if self.kind is not None and self.is_focus(v.v):
                return self.kind == v.kind
            return None
        if isinstance(v, Not):
            t = self.truth(v.v)
            return None if t is None else not t
        if isinstance(v, BoolV):
            ts = [self.truth(x) for x in v.vals]
            if v.op == 'and':
                if any(t is False for t in ts):
                    return False
                return True if all(t is True for t in ts) else None
            if any(t is True for t in ts):
                return True
            return False if all(t is False for t in ts) else None
        return None

    # -- functions -------------------------------------------------------------
    def call(self, fobj, args, kwargs, star_ok=True):
        fdef = fobj.fdef
        if self.is_recursive(fdef):
            return self.mk_rec(fobj, args, kwargs)
        self.depth += 1
        if self.depth > self.MAX_DEPTH:
            raise AnalysisError(f"call depth exceeded inlining {fdef.name}")
        try:
            env = Env(self, fobj.env)
            self.bind_params(fdef, args, kwargs, env, fobj.env)
            sig = self.exec_block(fdef.body, env)
        finally:
            self.depth -= 1
        if sig is not None and sig[0] in ('break', 'continue'):
            raise AnalysisError(f"loop control escaped function {fdef.name}")
        return self.finish(sig, fdef.name)

    def param_names(self, fdef):
        a = fdef.args
        if a.vararg or a.kwarg or a.posonlyargs:
            raise AnalysisError(f"signature of {fdef.name} outside the evaluated subset")
        return [x.arg for x in a.args] + [x.arg for x in a.kwonlyargs]

    def bind_params(self, fdef, args, kwargs, env, defenv):
        a = fdef.args
        names = [x.arg for x in a.args]
        if a.vararg or a.kwarg or a.posonlyargs:
            raise AnalysisError(f"signature of {fdef.name} outside the evaluated subset")
        if len(args) > len(names):
            raise AnalysisError(f"too many positional arguments for {fdef.name}")
        bound = dict(zip(names, args))
        for k, v in kwargs.items():
            if k in bound or k not in names + [x.arg for x in a.kwonlyargs]:
                raise AnalysisError(f"bad keyword {k} for {fdef.name}")
            bound[k] = v
        dpos = dict(zip(names[len(names) - len(a.defaults):], a.defaults))
        dkw = {x.arg: d for x, d in zip(a.kwonlyargs, a.kw_defaults) if d is not None}
        for n in names + [x.arg for x in a.kwonlyargs]:
            if n not in bound:
                d = dpos.get(n, dkw.get(n))
                if d is None:
                    raise AnalysisError(f"missing argument {n} for {fdef.name}")
                bound[n] = self.ev(d, Env(self, defenv))
        for n, v in bound.items():
            env.set(n, v)
        return bound

    def mk_rec(self, fobj, args, kwargs):
        fdef = fobj.fdef
        names = self.param_names(fdef)
        vals = dict(zip(names, args))
        vals.update(kwargs)
        ordered = []
        for n in names:
            if n in vals:
                ordered.append(freeze(vals[n]))
            else:
                ordered.append(Sym('<default ' + n + '>'))
        # closure snapshot: free variables of the helper bound to scalars in the defining env
        clos = []
        if fobj.env is not None:
            bound_inside = set(names) | {n.id for n in ast.walk(fdef) if isinstance(n, ast.Name) and
                                         isinstance(n.ctx, ast.Store)}
            free = sorted({n.id for n in ast.walk(fdef) if isinstance(n, ast.Name) and isinstance(n.ctx, ast.Load)}
                          - bound_inside)
            for n in free:
                if fobj.env.has(n):
                    val = fobj.env.lookup(n)
                    if isinstance(val, V):
                        clos.append((n, freeze(val)))
        self.rec_defs[fdef.name] = fobj
        self.nsites += 1
        return Rec(fdef.name, tuple(ordered), tuple(clos), self.nsites)

    # -- statements --------------------------------------------------------------
    def exec_block(self, stmts, env):
        for i, st in enumerate(stmts):
            sig = self.exec_stmt(st, env)
            if sig is None:
                continue
            if sig[0] != 'partial':
                return sig
            # `if <undecided>: return A` : the rest of the block runs under the negated condition
            _, test, pol, val = sig
            frames = self.branch_begin(env)
            self.cond_stack.append((test, not pol))
            try:
                rest = self.exec_block(stmts[i + 1:], env)
            finally:
                self.cond_stack.pop()
                for o, got in self.branch_end(frames):
                    if got:
                        o.segs.append(CondSeg(test, not pol, tuple(got)))
            if rest is None:
                return sig                      # the enclosing block continues under the same condition
            if rest[0] == 'return':
                return ('return', Phi(test, val, rest[1]) if pol else Phi(test, rest[1], val))
            if rest[0] == 'raise':
                return ('return', val)
            raise AnalysisError(f"nested conditional returns outside the subset near {norm(st)[:60]}")
        return None

    @staticmethod
    def finish(sig, what):
        """return value of a function body from its final signal"""
        if sig is None:
            return Const(None)
        if sig[0] == 'return':
            return sig[1]
        if sig[0] == 'partial':
            _, test, pol, val = sig
            return Phi(test, val, Const(None)) if pol else Phi(test, Const(None), val)
        raise AnalysisError(f"{what}: no return value on the analysed path ({sig[0]})")

    def exec_stmt(self, st, env):
        self.steps += 1
        if self.steps > 20000:
            raise AnalysisError("symbolic evaluation does not terminate")
        if isinstance(st, ast.Expr):
            if isinstance(st.value, ast.Constant):
                return None
            self.ev(st.value, env)
            return None
        if isinstance(st, ast.Pass):
            return None
        if isinstance(st, (ast.FunctionDef,)):
            f = FuncObj(st, env)
            env.set(st.name, f)
            self.fn_defs[st.name] = f
            return None
        if isinstance(st, ast.Return):
            v = Const(None) if st.value is None else self.ev(st.value, env)
            try:
                return ('return', self.freeze_deep(v))
            except AnalysisError:
                if self.loop_stack:      # a return from inside the loop that fills the returned accumulator
                    return ('return', Sym('<accumulator returned from inside its loop>'))
                raise
        if isinstance(st, ast.Assign):
            # `acc = acc + x` on an accumulator list is an in-place extend
            if len(st.targets) == 1 and isinstance(st.targets[0], ast.Name) and isinstance(st.value, ast.BinOp) \
                    and isinstance(st.value.op, ast.Add) and isinstance(st.value.left, ast.Name) \
                    and st.value.left.id == st.targets[0].id and env.has(st.targets[0].id) \
                    and isinstance(env.lookup(st.targets[0].id), ListObj):
                self.list_extend(env.lookup(st.targets[0].id), self.ev(st.value.right, env))
                return None
            v = self.ev(st.value, env)
            for t in st.targets:
                if isinstance(t, ast.Name) and isinstance(v, DictObj) and v.name is None:
                    v.name = t.id
                self.assign(t, v, env)
            return None
        if isinstance(st, ast.AnnAssign):
            if st.value is not None:
                self.assign(st.target, self.ev(st.value, env), env)
            return None
        if isinstance(st, ast.AugAssign):
            cur = self.ev(_load(st.target), env)
            rhs = self.ev(st.value, env)
            if isinstance(cur, ListObj) and not isinstance(cur, DictObj) and isinstance(st.op, ast.Add):
                self.list_extend(cur, rhs)
                return None
            v = self.binop(st.op, cur, rhs, st)
            self.assign(st.target, v, env)
            return None
        if isinstance(st, ast.Assert):
            t = self.ev(st.test, env)
            self.asserts.append((freeze(t), tuple(self.loop_stack), tuple(self.cond_stack), st))
            return None
        if isinstance(st, ast.If):
            return self.exec_if(st, env)
        if isinstance(st, ast.For):
            return self.exec_for(st, env)
        if isinstance(st, ast.While):
            return self.exec_while(st, env)
        if isinstance(st, ast.Break):
            return ('break',)
        if isinstance(st, ast.Continue):
            return ('continue',)
        if isinstance(st, ast.Raise):
            return ('raise',)
        raise AnalysisError(f"statement outside the generator subset: {norm(st)[:70]}")

    def assign(self, target, v, env):
        if isinstance(target, ast.Name):
            env.set(target.id, v)
        elif isinstance(target, (ast.Tuple, ast.List)):
            n = len(target.elts)
            if any(isinstance(e, ast.Starred) for e in target.elts):
                raise AnalysisError("starred assignment target")
            vv = freeze(v) if not isinstance(v, Tup) else v
            if isinstance(vv, Tup):
                if len(vv.items) != n:
                    raise AnalysisError(f"unpacking {len(vv.items)} values into {n} targets")
                parts = list(vv.items)
            elif isinstance(vv, (Rec, Sym, Sub, LoopVar, CallV, Proj, Phi, Attr)):
                parts = [Proj(vv, k) for k in range(n)]
            else:
                raise AnalysisError(f"cannot unpack {vv!r}")
            for e, p in zip(target.elts, parts):
                self.assign(e, p, env)
        elif isinstance(target, ast.Subscript):
            cont = self.ev(target.value, env)
            key = freeze(self.ev(target.slice, env))
            val = freeze(v)
            if isinstance(cont, DictObj):
                cont.segs.append(Item(Tup((key, val))))
            elif isinstance(cont, V):
                self.stores.append((cont, key, val, tuple(self.cond_stack)))
            else:
                raise AnalysisError(f"store into {norm(target)} outside the subset")
        elif isinstance(target, ast.Attribute):
            cont = self.ev(target.value, env)
            self.stores.append((freeze(cont), Const(target.attr), freeze(v), tuple(self.cond_stack)))
        else:
            raise AnalysisError(f"assignment target outside the subset: {norm(target)}")

    def list_extend(self, lst, v):
        if isinstance(lst, DictObj):
            raise AnalysisError("extend on a dict")
        if isinstance(v, ListObj):
            lst.segs.extend(freeze(v).segs)
        elif isinstance(v, SeqV):
            lst.segs.extend(v.segs)
        elif isinstance(v, Tup):
            lst.segs.extend(Item(x) for x in v.items)
        else:
            lst.segs.append(Splice(freeze(v)))

    # -- capture frames (loops / undecided branches) -------------------------------------------
    def capture_begin(self, env):
        frames = []
        for o in env.objects():
            frames.append((o, o.segs))
            o.segs = []
            o.captured += 1
        return frames

    def branch_begin(self, env):
        return [(o, len(o.segs)) for o in env.objects()]

    def branch_end(self, frames):
        """what an undecided branch appended to the accumulators (removed again; the caller wraps it in a CondSeg)"""
        out = []
        for o, n in frames:
            if len(o.segs) < n:
                raise AnalysisError("an accumulator is reordered / shortened inside a conditional branch")
            got = o.segs[n:]
            del o.segs[n:]
            out.append((o, got))
        return out

    def capture_end(self, frames):
        out = []
        for o, saved in frames:
            got = o.segs
            o.segs = saved
            o.captured -= 1
            out.append((o, got))
        return out

    def exec_if(self, st, env):
        t = self.ev(st.test, env)
        tv = self.truth(t)
        if tv is True:
            return self.exec_block(st.body, env)
        if tv is False:
            return self.exec_block(st.orelse, env)
        # undecided: fork
        test = freeze(t)
        before = dict(env.vars)
        results = []
        for pol, blk in ((True, st.body), (False, st.orelse)):
            env.vars = dict(before)
            frames = self.branch_begin(env)
            self.cond_stack.append((test, pol))
            try:
                sig = self.exec_block(blk, env)
            finally:
                self.cond_stack.pop()
            for o, got in self.branch_end(frames):
                if got:
                    o.segs.append(CondSeg(test, pol, tuple(got)))
            results.append((sig, env.vars))
        (s1, v1), (s2, v2) = results
        if any(x is not None and x[0] == 'partial' for x in (s1, s2)):
            raise AnalysisError(f"nested conditional returns outside the subset: {norm(st.test)[:60]}")
        for s in (s1, s2):
            if s is not None and s[0] in ('break', 'continue'):
                if not self.loop_stack:
                    raise AnalysisError("loop control outside a loop")
                self.loop_flags[self.loop_stack[-1]].add('conditional-' + s[0])
        s1 = None if s1 is not None and s1[0] in ('break', 'continue') else s1
        s2 = None if s2 is not None and s2[0] in ('break', 'continue') else s2
        # a raising branch ends there: the other branch continues alone (`if c: raise` asserts `not c`)
        if s1 is not None and s1[0] == 'raise' and (s2 is None or s2[0] != 'raise'):
            env.vars = v2
            self.asserts.append((Not(test), tuple(self.loop_stack), tuple(self.cond_stack), st))
            return s2
        if s2 is not None and s2[0] == 'raise' and (s1 is None or s1[0] != 'raise'):
            env.vars = v1
            self.asserts.append((test, tuple(self.loop_stack), tuple(self.cond_stack), st))
            return s1
        if s1 is not None and s2 is not None:
            if s1[0] == 'raise':
                return s1
            return ('return', Phi(test, s1[1], s2[1]) if s1[1] != s2[1] else s1[1])
        if s1 is not None or s2 is not None:
            ret, pol, keep = (s1, True, v2) if s1 is not None else (s2, False, v1)
            if ret[0] != 'return':
                raise AnalysisError(f"conditional {ret[0]} outside the subset: {norm(st.test)[:60]}")
            env.vars = keep
            return ('partial', test, pol, ret[1])
        merged = {}
        for n in set(v1) | set(v2):
            a, b = v1.get(n), v2.get(n)
            if a is b or (isinstance(a, V) and isinstance(b, V) and a == b):
                merged[n] = a
            elif a is None or b is None:
                merged[n] = Phi(test, freeze(a) if a is not None else Sym('<unbound>'),
                                freeze(b) if b is not None else Sym('<unbound>'))
            else:
                merged[n] = Phi(test, freeze(a), freeze(b))
        env.vars = merged
        return None

    def exec_while(self, st, env):
        # the only while loop understood: descend to the innermost element type
        #   while isinstance(x, list): x = x[0]
        t = st.test
        if isinstance(t, ast.Call) and norm(t.func) == 'isinstance' and len(t.args) == 2 and norm(t.args[1]) == 'list' \
                and isinstance(t.args[0], ast.Name) and len(st.body) == 1 and not st.orelse:
            b = st.body[0]
            x = t.args[0].id
            if isinstance(b, ast.Assign) and len(b.targets) == 1 and norm(b.targets[0]) == x \
                    and isinstance(b.value, ast.Subscript) and norm(b.value.value) == x:
                idx = self.ev(b.value.slice, env)
                if isinstance(idx, Lin) and idx.is_const and idx.const in (0, -1):
                    cur = freeze(env.lookup(x))
                    base = cur
                    while isinstance(base, Sub) and isinstance(base.idx, Lin) and base.idx.is_const:
                        base = base.v
                    env.set(x, Innermost(base))
                    return None
        raise AnalysisError(f"while loop outside the generator subset: {norm(st.test)[:60]}")

    def new_loop(self, space):
        self.nloops += 1
        self.loop_flags[self.nloops] = set()
        return Loop(self.nloops, space)

    def space_elem(self, loop):
        sp = loop.space
        while isinstance(sp, Wrapped):
            sp = sp.space
        if isinstance(sp, RangeSp):
            return LoopVar(loop, 'idx')
        if isinstance(sp, ItemsSp):
            return Tup((LoopVar(loop, 'key'), LoopVar(loop, 'val')))
        if isinstance(sp, KeysSp):
            return LoopVar(loop, 'key')
        if isinstance(sp, ValuesSp):
            return LoopVar(loop, 'val')
        if isinstance(sp, EnumSp):
            return Tup((LoopVar(loop, 'idx'), LoopVar(loop, 'elem')))
        return LoopVar(loop, 'elem')

    def to_space(self, v):
        v = freeze(v)
        if isinstance(v, (RangeSp, ItemsSp, KeysSp, ValuesSp, EnumSp, SeqSp, Wrapped)):
            return v
        if isinstance(v, (Sym, LoopVar, FieldsOf, Attr, Sub, Proj)) and not isinstance(v, SeqV):
            # iterating a mapping / opaque container directly: its keys (dict) -- for an opaque value we
            # cannot know; field containers are dicts in the analysed code
            return KeysSp(v)
        if isinstance(v, DictV):
            return KeysSp(v)
        if isinstance(v, (SeqV, Rev)):
            return SeqSp(v)
        if isinstance(v, (CallV, Bin, Phi, Tup)):
            return SeqSp(v)                                 # opaque iterable: its elements stay symbolic
        raise AnalysisError(f"iteration over {v!r} outside the subset")

    def exec_for(self, st, env):
        loop = self.new_loop(self.to_space(self.ev(st.iter, env)))
        targets = {n.id for n in ast.walk(st.target) if isinstance(n, ast.Name)}
        stored = set()
        for b in st.body:
            for n in walk_no_nested(b):
                if isinstance(n, ast.Name) and isinstance(n.ctx, ast.Store):
                    stored.add(n.id)
        carried = {}
        fresh = set()
        for n in sorted(stored - targets):
            if n in env.vars:
                cur = env.vars[n]
                if isinstance(cur, (ListObj, FuncObj)):
                    continue
                carried[n] = cur
                env.set(n, Carried(loop, n))
            else:
                fresh.add(n)
        frames = self.capture_begin(env)
        self.loop_stack.append(loop.id)
        try:
            self.assign(st.target, self.space_elem(loop), env)
            sig = self.exec_block(st.body, env)
        finally:
            self.loop_stack.pop()
        if sig is not None:
            if sig[0] in ('break', 'continue'):
                self.loop_flags[loop.id].add(sig[0])
            elif sig[0] in ('return', 'partial'):
                self.loop_flags[loop.id].add('return' if sig[0] == 'return' else 'conditional-return')
            else:
                self.loop_flags[loop.id].add('raise')
        flags = tuple(sorted(self.loop_flags[loop.id]))
        for o, got in self.capture_end(frames):
            if got or flags:
                o.segs.append(LoopSeg(loop, tuple(got), flags))
        for n, init in carried.items():
            step = freeze(env.lookup(n))
            if step == Carried(loop, n):
                env.set(n, init)
            else:
                env.set(n, Fold(loop, n, freeze(init), step))
        for n in sorted(fresh | targets):
            if n in env.vars and isinstance(env.vars[n], V):
                env.set(n, LastIter(loop, freeze(env.vars[n])))
        if st.orelse:
            return self.exec_block(st.orelse, env)
        if sig is not None and sig[0] == 'return':
            raise AnalysisError("return inside a traversal loop")
        return None

    def freeze_deep(self, v):
        if isinstance(v, Tup):
            return Tup(tuple(self.freeze_deep(x) for x in v.items))
        return freeze(v)

    # -- expressions ---------------------------------------------------------------
    def ev(self, e, env):
        m = getattr(self, 'ev_' + type(e).__name__, None)
        if m is None:
            raise AnalysisError(f"expression outside the generator subset: {type(e).__name__}: {norm(e)[:70]}")
        return m(e, env)

    def ev_Constant(self, e, env):
        if isinstance(e.value, bool) or e.value is None or isinstance(e.value, str):
            return Const(e.value)
        if isinstance(e.value, int):
            return Lin(e.value)
        raise AnalysisError(f"constant outside the subset: {e.value!r}")

    def ev_Name(self, e, env):
        return env.lookup(e.id)

    def ev_JoinedStr(self, e, env):
        parts = []
        for p in e.values:
            if isinstance(p, ast.Constant):
                parts.append(p.value)
            else:
                v = freeze(self.ev(p.value, env))
                if p.conversion != -1 or p.format_spec is not None:
                    v = Fmt(v, p.conversion, norm(p.format_spec) if p.format_spec is not None else None)
                parts.append(v)
        return mk_tmpl(parts)

    def ev_List(self, e, env):
        out = ListObj()
        for x in e.elts:
            if isinstance(x, ast.Starred):
                self.list_extend(out, self.ev(x.value, env))
            else:
                out.segs.append(Item(freeze(self.ev(x, env))))
        return out

    def ev_Tuple(self, e, env):
        items = []
        for x in e.elts:
            if isinstance(x, ast.Starred):
                v = freeze(self.ev(x.value, env))
                if not isinstance(v, Tup):
                    raise AnalysisError("starred element in tuple")
                items.extend(v.items)
            else:
                v = self.ev(x, env)
                items.append(v if isinstance(v, (ListObj, FuncObj)) else freeze(v))
        return Tup(tuple(items))

    def ev_Dict(self, e, env):
        out = DictObj()
        for k, v in zip(e.keys, e.values):
            if k is None:
                raise AnalysisError("dict unpacking")
            out.segs.append(Item(Tup((freeze(self.ev(k, env)), freeze(self.ev(v, env))))))
        return out

    def _comp(self, gens, env, emit):
        """evaluate comprehension generators recursively; returns segs"""
        g = gens[0]
        if g.is_async:
            raise AnalysisError("async comprehension")
        loop = self.new_loop(self.to_space(self.ev(g.iter, env)))
        inner = Env(self, env)
        self.loop_stack.append(loop.id)
        try:
            self.assign(g.target, self.space_elem(loop), inner)
            conds = [freeze(self.ev(c, inner)) for c in g.ifs]
            undec = []
            dead = False
            for c in conds:
                t = self.truth(c)
                if t is False:
                    dead = True
                elif t is None:
                    undec.append(c)
            if dead:
                segs = ()
            elif len(gens) > 1:
                segs = self._comp(gens[1:], inner, emit)
            else:
                segs = (emit(inner),)
            for c in reversed(undec):
                segs = (CondSeg(c, True, tuple(segs)),)
        finally:
            self.loop_stack.pop()
        return (LoopSeg(loop, tuple(segs), tuple(sorted(self.loop_flags[loop.id]))),)

    def ev_ListComp(self, e, env):
        return ListObj(self._comp(e.generators, env, lambda en: Item(freeze(self.ev(e.elt, en)))))

    ev_GeneratorExp = ev_ListComp

    def ev_DictComp(self, e, env):
        return DictObj(self._comp(e.generators, env,
                                  lambda en: Item(Tup((freeze(self.ev(e.key, en)), freeze(self.ev(e.value, en)))))))

    def ev_IfExp(self, e, env):
        t = self.ev(e.test, env)
        tv = self.truth(t)
        if tv is True:
            return self.ev(e.body, env)
        if tv is False:
            return self.ev(e.orelse, env)
        a, b = self.freeze_deep(self.ev(e.body, env)), self.freeze_deep(self.ev(e.orelse, env))
        return a if a == b else Phi(freeze(t), a, b)

    def ev_BoolOp(self, e, env):
        vals = [freeze(self.ev(x, env)) for x in e.values]
        return BoolV('and' if isinstance(e.op, ast.And) else 'or', tuple(vals))

    def ev_UnaryOp(self, e, env):
        v = self.ev(e.operand, env)
        if isinstance(e.op, ast.Not):
            return Not(freeze(v))
        if isinstance(e.op, ast.USub):
            return lin(freeze(v)).scale(-1)
        raise AnalysisError(f"unary operator outside the subset: {norm(e)}")

    def ev_Compare(self, e, env):
        if len(e.ops) != 1:
            vals = [freeze(self.ev(x, env)) for x in [e.left] + e.comparators]
            return BoolV('and', tuple(Cmp(type(op).__name__, a, b) for op, a, b in zip(e.ops, vals, vals[1:])))
        l, r = freeze(self.ev(e.left, env)), freeze(self.ev(e.comparators[0], env))
        op = type(e.ops[0]).__name__
        if isinstance(l, Lin) and isinstance(r, Lin) and l.is_const and r.is_const:
            import operator as _o
            f = {'Eq': _o.eq, 'NotEq': _o.ne, 'Lt': _o.lt, 'LtE': _o.le, 'Gt': _o.gt, 'GtE': _o.ge}.get(op)
            if f:
                return Const(f(l.const, r.const))
        return Cmp(op, unlin(l), unlin(r))

    def binop(self, op, l, r, node):
        if isinstance(op, ast.Add):
            if isinstance(l, ListObj) or isinstance(r, ListObj) or isinstance(l, SeqV) or isinstance(r, SeqV):
                out = ListObj()
                self.list_extend(out, l)
                self.list_extend(out, r)
                return out
            if is_stringy(l) or is_stringy(r):
                return mk_tmpl([freeze(l), freeze(r)])
            return lin(freeze(l)).add(lin(freeze(r)))
        if isinstance(op, ast.Sub):
            return lin(freeze(l)).add(lin(freeze(r)), -1)
        if isinstance(op, ast.Mult):
            a, b = l, r
            if isinstance(b, (ListObj, SeqV)) or is_stringy(b):
                a, b = b, a
            if isinstance(a, (ListObj, SeqV)):
                segs = freeze(a).segs
                n = lin(freeze(b))
                if n.is_const:
                    return ListObj(segs * max(n.const, 0))
                loop = self.new_loop(RangeSp(unlin(n), 'asc', True, f"range({n!r})"))
                return ListObj((LoopSeg(loop, tuple(segs), ()),))
            if is_stringy(a):
                n = lin(freeze(b))
                if n.is_const and tmpl_text(a) is not None:
                    return Const(tmpl_text(a) * n.const)
                raise AnalysisError(f"string repetition outside the subset: {norm(node)[:60]}")
            la, lb = lin(freeze(a)), lin(freeze(b))
            if la.is_const:
                return lb.scale(la.const)
            if lb.is_const:
                return la.scale(lb.const)
        return Bin(type(op).__name__, freeze(l), freeze(r))

    def ev_BinOp(self, e, env):
        return self.binop(e.op, self.ev(e.left, env), self.ev(e.right, env), e)

    def ev_Attribute(self, e, env):
        base = freeze(self.ev(e.value, env))
        if e.attr == '__bitstruct_fields__':
            return FieldsOf(base)
        return Attr(base, e.attr)

    def ev_Slice(self, e, env):
        f = lambda x: None if x is None else freeze(self.ev(x, env))
        return SliceV(f(e.lower), f(e.upper), f(e.step))

    def ev_Subscript(self, e, env):
        base = self.ev(e.value, env)
        idx = self.ev(e.slice, env)
        if isinstance(idx, SliceV):
            full_rev = idx.lo is None and idx.hi is None and idx.step == Lin(-1)
            ident = idx.lo is None and idx.hi is None and idx.step in (None, Lin(1))
            b = freeze(base)
            if ident:
                return b
            if full_rev:
                return self.reverse(b)
            if isinstance(b, (RangeSp, ItemsSp, KeysSp, ValuesSp, EnumSp, SeqSp, Wrapped)):
                return Wrapped('slice ' + norm(e.slice), b)
            return Wrapped('slice ' + norm(e.slice), self.to_space(b))
        b = freeze(base)
        if isinstance(b, Tup) and isinstance(idx, Lin) and idx.is_const and -len(b.items) <= idx.const < len(b.items):
            return b.items[idx.const]
        if isinstance(b, (Rec, Proj, CallV, LoopVar)) and isinstance(idx, Lin) and idx.is_const and idx.const >= 0 \
                and isinstance(b, (Rec, CallV)):
            return Proj(b, idx.const)
        return Sub(b, freeze(idx))

    def reverse(self, v):
        v = freeze(v)
        if isinstance(v, RangeSp):
            return RangeSp(v.n, {'asc': 'desc', 'desc': 'asc'}.get(v.dir, v.dir), v.complete, 'reversed ' + v.desc)
        if isinstance(v, Rev):
            return v.v
        if isinstance(v, (ItemsSp, KeysSp, ValuesSp, EnumSp, SeqSp, Wrapped)):
            return Wrapped('reversed', v)
        return Rev(v)

    def mk_range(self, args, node):
        ls = [lin(freeze(a)) for a in args]
        if len(ls) == 1:
            start, stop, step = Lin(0), ls[0], Lin(1)
        elif len(ls) == 2:
            start, stop, step = ls[0], ls[1], Lin(1)
        elif len(ls) == 3:
            start, stop, step = ls
        else:
            raise AnalysisError("range() arity")
        desc = norm(node)
        if step == Lin(1):
            n = stop
            return RangeSp(unlin(n), 'asc', start == Lin(0), desc)
        if step == Lin(-1):
            n = start.add(Lin(1))
            return RangeSp(unlin(n), 'desc', stop == Lin(-1), desc)
        return RangeSp(unlin(stop), 'stride', False, desc)

    def ev_Call(self, e, env):
        args = []
        for a in e.args:
            if isinstance(a, ast.Starred):
                v = freeze(self.ev(a.value, env))
                if isinstance(v, Tup):
                    args.extend(v.items)
                else:
                    args.append(CallV('*', (v,), ()))      # unknown number of arguments: stays opaque
            else:
                args.append(self.ev(a, env))
        kwargs = {}
        for k in e.keywords:
            if k.arg is None:
                raise AnalysisError("** in call")
            kwargs[k.arg] = self.ev(k.value, env)
        f = e.func
        if isinstance(f, ast.Name):
            target = env.lookup(f.id)
            if isinstance(target, FuncObj):
                if f.id == '_create_fn':
                    return self.mk_fn(target, args, kwargs)
                if f.id == 'is_bitstruct_class' and len(args) == 1:
                    return KindTest('struct', freeze(args[0]))
                return self.call(target, args, kwargs)
            return self.builtin(f.id, args, kwargs, e)
        if isinstance(f, ast.Attribute):
            recv = self.ev(f.value, env)
            return self.method(recv, f.attr, args, kwargs, e)
        raise AnalysisError(f"call outside the subset: {norm(e)[:60]}")

    def mk_fn(self, target, args, kwargs):
        names = self.param_names(target.fdef)
        vals = dict(zip(names, args))
        vals.update(kwargs)
        if names[:3] != ['fn_name', 'args_lst', 'body_lst'] and len(names) < 3:
            raise AnalysisError("_create_fn signature changed")
        g = vals.get(names[3]) if len(names) > 3 else None
        return Fn(freeze(vals[names[0]]), freeze(vals[names[1]]), freeze(vals[names[2]]),
                  freeze(g) if g is not None else Const(None))

    def builtin(self, name, args, kwargs, node):
        fa = [freeze(a) for a in args]
        if name == 'range' and not kwargs:
            return self.mk_range(fa, node)
        if name == 'len' and len(fa) == 1:
            v = fa[0]
            if isinstance(v, SeqV) and all(isinstance(s, Item) for s in v.segs):
                return Lin(len(v.segs))
            return lin(Len(v))
        if name == 'reversed' and len(fa) == 1:
            return self.reverse(fa[0])
        if name == 'enumerate' and len(fa) == 1:
            return EnumSp(fa[0])
        if name in ('list', 'tuple', 'iter') and len(fa) == 1:
            return args[0] if name != 'list' or not isinstance(args[0], ListObj) else ListObj(args[0].segs)
        if name in ('sorted', 'set', 'frozenset') and len(fa) >= 1:
            return Wrapped(name, self.to_space(fa[0]))
        if name == 'isinstance' and len(fa) == 2:
            if fa[1] == Sym('list'):
                return KindTest('list', fa[0])
            return CallV(name, tuple(fa), ())
        if name == 'issubclass' and len(fa) == 2:
            if fa[1] == Sym('Bits'):
                return KindTest('bits', fa[0])
            return CallV(name, tuple(fa), ())
        if name == 'getattr' and len(fa) >= 2:
            t = tmpl_text(fa[1])
            if t is not None and len(fa) == 2:
                return FieldsOf(fa[0]) if t == '__bitstruct_fields__' else Attr(fa[0], t)
        if name == 'str' and len(fa) == 1:
            return mk_tmpl([fa[0]])
        if name == 'int' and len(fa) == 1:
            return fa[0]
        return CallV(name, tuple(fa), tuple(sorted((k, freeze(v)) for k, v in kwargs.items())))

    def method(self, recv, name, args, kwargs, node):
        fa = [freeze(a) for a in args]
        if isinstance(recv, DictObj):
            if name in ('items', 'keys', 'values') and not args:
                d = freeze(recv)
                return {'items': ItemsSp, 'keys': KeysSp, 'values': ValuesSp}[name](d)
            if name == 'copy' and not args:
                return DictObj(recv.segs)
        elif isinstance(recv, ListObj):
            if name == 'append' and len(args) == 1:
                recv.segs.append(Item(fa[0]))
                return Const(None)
            if name == 'extend' and len(args) == 1:
                self.list_extend(recv, args[0])
                return Const(None)
            if name == 'insert' and len(args) == 2 and fa[0] == Lin(0):
                recv.segs.insert(0, Item(fa[1])) if not recv.captured else recv.segs.append(
                    Item(CallV('<insert-front>', (fa[1],), ())))
                return Const(None)
            if name == 'reverse' and not args:
                recv.segs[:] = [Splice(Rev(SeqV(tuple(recv.segs))))] if not recv.captured else \
                    recv.segs + [Item(CallV('<reverse-in-loop>', (), ()))]
                return Const(None)
            if name == 'copy' and not args:
                return ListObj(recv.segs)
        r = freeze(recv)
        if name == 'join' and len(args) == 1 and is_stringy(r):
            return Join(r, fa[0])
        if name == 'format' and is_stringy(r) and tmpl_text(r) is not None:
            return self.str_format(tmpl_text(r), fa, {k: freeze(v) for k, v in kwargs.items()})
        if name in ('items', 'keys', 'values') and not args:
            return {'items': ItemsSp, 'keys': KeysSp, 'values': ValuesSp}[name](r)
        if name == 'get' and len(fa) in (1, 2):
            return CallV('.get', (r,) + tuple(fa), ())
        return CallV('.' + name, (r,) + tuple(fa), tuple(sorted((k, freeze(v)) for k, v in kwargs.items())))

    def str_format(self, text, args, kwargs):
        parts = []
        auto = 0
        for lit, field, spec, conv in string.Formatter().parse(text):
            if lit:
                parts.append(lit)
            if field is None:
                continue
            if spec or conv:
                raise AnalysisError("format spec in .format template")
            if field == '':
                v = args[auto]
                auto += 1
            elif field.isdigit():
                v = args[int(field)]
            elif field in kwargs:
                v = kwargs[field]
            else:
                raise AnalysisError(f".format field {field!r} outside the subset")
            parts.append(v)
        return mk_tmpl(parts)


def _load(target):
    import copy
    t = copy.deepcopy(target)
    for n in ast.walk(t):
        if hasattr(n, 'ctx'):
            n.ctx = ast.Load()
    return t


# ---------------------------------------------------------------------------
# entry points
def eval_generator(module, fdef, kind, param_values=None):
    """evaluate a top-level generator with symbolic parameters under the assumption that every field
    type met in a field loop is of `kind`.  Returns (return value, evaluator)."""
    ev = GenEval(module, kind=kind)
    env = Env(ev)
    for a in fdef.args.args + fdef.args.kwonlyargs + ([fdef.args.vararg] if fdef.args.vararg else []):
        env.set(a.arg, (param_values or {}).get(a.arg, Sym(a.arg)))
    sig = ev.exec_block(fdef.body, env)
    if sig is None:
        raise AnalysisError(f"{fdef.name}: no return value on the analysed path")
    ev.final_env = env
    return ev.finish(sig, fdef.name), ev


def eval_case(module, fobj_or_def, kind, type_param=None, closure=None):
    """evaluate ONE case of a recursive helper: its type parameter is of `kind`; recursive calls stay
    symbolic (`Rec`).  Returns (return value, evaluator, type parameter symbol)."""
    fdef = fobj_or_def.fdef if isinstance(fobj_or_def, FuncObj) else fobj_or_def
    tp = type_param or find_type_param(fdef)
    ev = GenEval(module, kind=kind, focus={Sym(tp)}, field_loops_focus=False)
    outer = Env(ev)
    for n, v in (closure or {}).items():
        outer.set(n, v)
    env = Env(ev, outer)
    for a in fdef.args.args + fdef.args.kwonlyargs:
        env.set(a.arg, Sym(a.arg))
    # the helper may call itself: make its own name resolve to itself
    outer.set(fdef.name, FuncObj(fdef, outer))
    sig = ev.exec_block(fdef.body, env)
    if sig is None:
        raise AnalysisError(f"{fdef.name}[{kind}]: no return value on the analysed path")
    ev.final_env = env
    return ev.finish(sig, f"{fdef.name}[{kind}]"), ev, Sym(tp)


def find_type_param(fdef):
    params = [a.arg for a in fdef.args.args]
    for n in ast.walk(fdef):
        if isinstance(n, ast.Call) and isinstance(n.func, ast.Name) and n.func.id == 'isinstance' and len(n.args) == 2 \
                and norm(n.args[1]) == 'list' and isinstance(n.args[0], ast.Name) and n.args[0].id in params:
            return n.args[0].id
    raise AnalysisError(f"{fdef.name}: no parameter is dispatched on with isinstance(<param>, list)")


# ---------------------------------------------------------------------------
# rendering a template with placeholders so that the EMITTED code can be parsed
class Holes:
    def __init__(self):
        self.by_value = {}
        self.by_name = {}

    def name_of(self, v):
        n = self.by_value.get(v)
        if n is None:
            n = f"__h{len(self.by_value)}__"
            self.by_value[v] = n
            self.by_name[n] = v
        return n

    def value(self, name):
        return self.by_name.get(name)

    def of_node(self, node):
        """value of a placeholder Name / attribute name, else None"""
        if isinstance(node, ast.Name):
            return self.by_name.get(node.id)
        if isinstance(node, str):
            return self.by_name.get(node)
        return None


def render(v, holes):
    if isinstance(v, str):
        return v
    t = tmpl_text(v)
    if t is not None:
        return t
    if isinstance(v, Tmpl):
        return ''.join(p if isinstance(p, str) else render(p, holes) for p in v.parts)
    if isinstance(v, Lin) and v.is_const:
        return str(v.const)
    return holes.name_of(unlin(v) if isinstance(v, V) else v)


def seg_lines(segs, holes):
    out = []
    for s in segs:
        if isinstance(s, Item):
            out.append(render(s.v, holes))
        elif isinstance(s, Splice):
            out.append(holes.name_of(s))
        elif isinstance(s, (LoopSeg, CondSeg)):
            out.extend(seg_lines(s.segs, holes))
        else:
            raise AnalysisError(f"segment {s!r} cannot be rendered")
    return out


def render_fn(fn, holes):
    """source text of the function `_create_fn` would build, holes replaced by placeholder identifiers;
    a loop segment is rendered once (its per-iteration text)."""
    if not isinstance(fn, Fn):
        raise AnalysisError(f"not a generated function: {fn!r}")
    if not isinstance(fn.args, SeqV) or not isinstance(fn.body, SeqV):
        raise AnalysisError("generated function with opaque argument/body list")
    args = ', '.join(seg_lines(fn.args.segs, holes))
    body = '\n'.join('  ' + ln for ln in seg_lines(fn.body.segs, holes))
    name = render(fn.name, holes)
    return f"def {name}({args}):\n{body}"


def parse_fn(fn, holes):
    src = render_fn(fn, holes)
    try:
        tree = ast.parse(src)
    except SyntaxError as ex:
        return None, src, str(ex)
    if len(tree.body) != 1 or not isinstance(tree.body[0], ast.FunctionDef):
        return None, src, "not a single function definition"
    return tree.body[0], src, None


def parse_text(v, holes, mode='exec'):
    src = render(v, holes)
    try:
        tree = ast.parse(src.strip(), mode=mode)
    except SyntaxError as ex:
        return None, src, str(ex)
    return (tree.body if mode == 'eval' else tree.body), src, None


def flatten(segs, loops=(), conds=()):
    """yield (segment, loops, conds) for every Item/Splice, with the LoopSegs/CondSegs around it"""
    for s in segs:
        if isinstance(s, LoopSeg):
            yield from flatten(s.segs, loops + (s,), conds)
        elif isinstance(s, CondSeg):
            yield from flatten(s.segs, loops, conds + (s,))
        else:
            yield s, loops, conds


def walk_values(v):
    """all sub-values of a value"""
    todo = [v]
    while todo:
        x = todo.pop()
        yield x
        if isinstance(x, Lin):
            todo.extend(a for a, _ in x.terms)
        elif isinstance(x, V):
            for k in x._k():
                if isinstance(k, V):
                    todo.append(k)
                elif isinstance(k, tuple):
                    for y in k:
                        if isinstance(y, V):
                            todo.append(y)
                        elif isinstance(y, tuple):
                            todo.extend(z for z in y if isinstance(z, V))


# ---------------------------------------------------------------------------
# pretty printer (normalised, position independent: used in finding keys and messages)
def show(v):
    if isinstance(v, str):
        return v
    if isinstance(v, (int, bool)) or v is None:
        return repr(v)
    if isinstance(v, tuple):
        return '(' + ', '.join(show(x) for x in v) + ')'
    if isinstance(v, Const):
        return repr(v.value)
    if isinstance(v, Sym):
        return v.name
    if isinstance(v, Lin):
        if v.is_const:
            return str(v.const)
        out = []
        for a, c in sorted(v.terms, key=lambda t: -t[1]):
            out.append(('- ' if c < 0 else '+ ') + ('' if abs(c) == 1 else f"{abs(c)}*") + show(a))
        s = ' '.join(out)
        s = s[2:] if s.startswith('+ ') else s
        if v.const:
            s += f" {'+' if v.const > 0 else '-'} {abs(v.const)}"
        return s.strip()
    if isinstance(v, Tmpl):
        return 'f"' + ''.join(p if isinstance(p, str) else '{' + show(p) + '}' for p in v.parts) + '"'
    if isinstance(v, Join):
        return f"{show(v.sep)}.join({show(v.seq)})"
    if isinstance(v, (SeqV,)):
        return '[' + ', '.join(show(s) for s in v.segs) + ']'
    if isinstance(v, DictV):
        return (v.name or '') + '{' + ', '.join(show(s) for s in v.segs) + '}'
    if isinstance(v, Item):
        return show(v.v)
    if isinstance(v, Splice):
        return '*' + show(v.v)
    if isinstance(v, LoopSeg):
        fl = f" [{','.join(v.flags)}]" if v.flags else ''
        return f"<for {show(v.loop.space)}{fl}: {', '.join(show(s) for s in v.segs)}>"
    if isinstance(v, CondSeg):
        return f"<if {'' if v.pol else 'not '}{show(v.test)}: {', '.join(show(s) for s in v.segs)}>"
    if isinstance(v, Rev):
        return f"reversed({show(v.v)})"
    if isinstance(v, Tup):
        return '(' + ', '.join(show(x) for x in v.items) + ')'
    if isinstance(v, Attr):
        return f"{show(v.v)}.{v.name}"
    if isinstance(v, Sub):
        return f"{show(v.v)}[{show(v.idx)}]"
    if isinstance(v, SliceV):
        return ':'.join('' if x is None else show(x) for x in (v.lo, v.hi, v.step))
    if isinstance(v, Len):
        return f"len({show(v.v)})"
    if isinstance(v, Innermost):
        return f"innermost({show(v.v)})"
    if isinstance(v, FieldsOf):
        return f"fields_of({show(v.v)})"
    if isinstance(v, RangeSp):
        return v.desc
    if isinstance(v, ItemsSp):
        return f"{show(v.d)}.items()"
    if isinstance(v, KeysSp):
        return f"keys({show(v.d)})"
    if isinstance(v, ValuesSp):
        return f"{show(v.d)}.values()"
    if isinstance(v, EnumSp):
        return f"enumerate({show(v.v)})"
    if isinstance(v, SeqSp):
        return show(v.v)
    if isinstance(v, Wrapped):
        return f"{v.fn}({show(v.space)})"
    if isinstance(v, Loop):
        return show(v.space)
    if isinstance(v, LoopVar):
        return f"<{v.role} of {show(v.loop.space)}>"
    if isinstance(v, Carried):
        return v.name
    if isinstance(v, Fold):
        return f"fold({v.name} = {show(v.init)}; for {show(v.loop.space)}: {v.name} = {show(v.step)})"
    if isinstance(v, LastIter):
        return f"last({show(v.v)})"
    if isinstance(v, Phi):
        return f"({show(v.a)} if {show(v.test)} else {show(v.b)})"
    if isinstance(v, Rec):
        return f"{v.fn}({', '.join(show(a) for a in v.args)})"
    if isinstance(v, Proj):
        return f"{show(v.v)}[{v.k}]"
    if isinstance(v, CallV):
        return f"{v.fn}({', '.join(show(a) for a in v.args)})"
    if isinstance(v, (Bin, Cmp)):
        op = {'Eq': '==', 'NotEq': '!=', 'Lt': '<', 'LtE': '<=', 'Gt': '>', 'GtE': '>=', 'In': 'in', 'NotIn': 'not in',
              'Is': 'is', 'IsNot': 'is not', 'LShift': '<<', 'RShift': '>>', 'BitOr': '|', 'BitAnd': '&', 'BitXor': '^',
              'Add': '+', 'Sub': '-', 'Mult': '*', 'Mod': '%', 'FloorDiv': '//'}.get(v.op, v.op)
        return f"({show(v.l)} {op} {show(v.r)})"
    if isinstance(v, BoolV):
        return '(' + f" {v.op} ".join(show(x) for x in v.vals) + ')'
    if isinstance(v, Not):
        return f"not {show(v.v)}"
    if isinstance(v, KindTest):
        return f"is_{v.kind}({show(v.v)})"
    if isinstance(v, Fmt):
        return show(v.v) + '!fmt'
    if isinstance(v, Fn):
        return f"def {show(v.name)}({show(v.args)}): {show(v.body)}"
    return repr(v)


def subst_values(v, mapping):
    """structural substitution value -> value inside a value"""
    if isinstance(v, V) and v in mapping:
        return mapping[v]
    if isinstance(v, Lin):
        out = Lin(v.const)
        for a, c in v.terms:
            out = out.add(lin(subst_values(a, mapping)).scale(c))
        return out
    if isinstance(v, Tmpl):
        return mk_tmpl([p if isinstance(p, str) else subst_values(p, mapping) for p in v.parts])
    if isinstance(v, V):
        args = []
        for k in v._k():
            args.append(_subst_any(k, mapping))
        return type(v)(*args)
    return v


def _subst_any(k, mapping):
    if isinstance(k, V):
        return subst_values(k, mapping)
    if isinstance(k, tuple):
        return tuple(_subst_any(x, mapping) for x in k)
    return k


class Site:
    """one occurrence of a recursive-helper result inside an evaluated value"""
    def __init__(self, rec, loops, conds, proj, wrappers):
        self.rec, self.loops, self.conds, self.proj, self.wrappers = rec, loops, conds, proj, wrappers


def rec_sites(v, loops=(), conds=(), proj=None, wrappers=()):
    """all occurrences of Rec values with their enclosing loops (LoopSeg / Fold), undecided conditions,
    the projection applied and the wrappers (Rev / Join / Splice / Item / Tmpl) passed on the way"""
    out = []
    if isinstance(v, Rec):
        out.append(Site(v, loops, conds, proj, wrappers))
        return out
    if isinstance(v, Proj):
        return rec_sites(v.v, loops, conds, v.k, wrappers)
    if isinstance(v, LoopSeg):
        for s in v.segs:
            out += rec_sites(s, loops + (v.loop,), conds, None, wrappers)
        return out
    if isinstance(v, CondSeg):
        for s in v.segs:
            out += rec_sites(s, loops, conds + ((v.test, v.pol),), None, wrappers)
        return out
    if isinstance(v, Fold):
        out += rec_sites(v.init, loops, conds, None, wrappers)
        out += rec_sites(v.step, loops + (v.loop,), conds, None, wrappers + ('Fold',))
        return out
    if isinstance(v, Phi):
        out += rec_sites(v.a, loops, conds + ((v.test, True),), None, wrappers)
        out += rec_sites(v.b, loops, conds + ((v.test, False),), None, wrappers)
        return out
    if isinstance(v, Lin):
        for a, _ in v.terms:
            out += rec_sites(a, loops, conds, None, wrappers)
        return out
    if isinstance(v, V):
        w = wrappers + (type(v).__name__,)
        for k in v._k():
            out += _sites_any(k, loops, conds, w)
    return out


def _sites_any(k, loops, conds, w):
    out = []
    if isinstance(k, V):
        out += rec_sites(k, loops, conds, None, w)
    elif isinstance(k, tuple):
        for x in k:
            out += _sites_any(x, loops, conds, w)
    return out


def loops_in(v):
    """all Loop values mentioned by LoopSegs / Folds of a value"""
    out = []
    for x in walk_values(v):
        if isinstance(x, (LoopSeg, Fold)) and x.loop not in out:
            out.append(x.loop)
    return out


def alternatives(v, conds=()):
    """the arms of a (nested) Phi value: list of (conditions, value); the LAST entry is the fall-through arm
    (all conditions false)"""
    if isinstance(v, Phi):
        return alternatives(v.a, conds + ((v.test, True),)) + alternatives(v.b, conds + ((v.test, False),))
    return [(conds, v)]


def show_conds(conds):
    return ' and '.join(('' if pol else 'not ') + show(t) for t, pol in conds) or 'always'


# ---------------------------------------------------------------------------
# Tiny concrete-on-abstract-leaves interpreter for the ADMISSION GUARD of list-typed fields
# (_check_field_annotation / _check_valid_array_of_types / _recursive_check_array_types).  The guard is a
# small pure function over nested lists of types; the rule enumerates an exhaustive finite family of nested
# list *shapes* over abstract leaf tokens and compares the guard's accept/reject decision with the
# specification "every element has the shape and leaf type of element 0" (which is exactly what the
# generators assume when they derive all elements from type_[0]).  Only the vocabulary below is understood;
# anything else raises AnalysisError.
class Leaf:
    __slots__ = ('tag', 'kind')

    def __init__(self, tag, kind):      # kind: 'bits' | 'struct' | 'nontype'
        self.tag, self.kind = tag, kind

    def __repr__(self):
        return self.tag


class TinyExc(Exception):
    def __init__(self, cls):
        self.cls = cls


class _Ret(Exception):
    def __init__(self, v):
        self.v = v


class Opaque:
    """an object the guard only passes around / formats (the class being processed, messages)"""
    def __repr__(self):
        return '<opaque>'


class TinyInterp:
    def __init__(self, module, budget=4000):
        self.module = module
        self.budget = budget
        self.steps = 0

    def call(self, fname, args):
        f = self.module.functions.get(fname)
        if f is None:
            raise AnalysisError(f"anchor vanished: {fname}")
        a = f.args
        if a.vararg or a.kwarg or a.kwonlyargs or a.defaults or len(a.args) != len(args):
            raise AnalysisError(f"{fname}: signature outside the interpreted subset")
        env = {p.arg: v for p, v in zip(a.args, args)}
        try:
            self.block(f.body, env)
        except _Ret as r:
            return r.v
        return None

    def tick(self, node):
        self.steps += 1
        if self.steps > self.budget:
            raise AnalysisError(f"admission guard does not terminate on a small spec (near {norm(node)[:50]})")

    def block(self, stmts, env):
        for st in stmts:
            self.stmt(st, env)

    def stmt(self, st, env):
        self.tick(st)
        if isinstance(st, ast.Expr):
            if not isinstance(st.value, ast.Constant):
                self.ev(st.value, env)
        elif isinstance(st, ast.Pass):
            pass
        elif isinstance(st, ast.Assign):
            v = self.ev(st.value, env)
            for t in st.targets:
                self.bind(t, v, env)
        elif isinstance(st, ast.Return):
            raise _Ret(None if st.value is None else self.ev(st.value, env))
        elif isinstance(st, ast.Assert):
            if not self.truth(self.ev(st.test, env)):
                raise TinyExc('AssertionError')
        elif isinstance(st, ast.If):
            self.block(st.body if self.truth(self.ev(st.test, env)) else st.orelse, env)
        elif isinstance(st, ast.For):
            it = self.ev(st.iter, env)
            if not isinstance(it, (list, tuple, range)):
                raise TinyExc('TypeError')
            broke = False
            for x in it:
                self.bind(st.target, x, env)
                try:
                    self.block(st.body, env)
                except _Brk:
                    broke = True
                    break
                except _Cont:
                    continue
            if not broke:
                self.block(st.orelse, env)
        elif isinstance(st, ast.Break):
            raise _Brk()
        elif isinstance(st, ast.Continue):
            raise _Cont()
        elif isinstance(st, ast.Raise):
            e = st.exc
            name = norm(e.func) if isinstance(e, ast.Call) else (norm(e) if e is not None else 'reraise')
            raise TinyExc(name)
        elif isinstance(st, ast.Try):
            try:
                self.block(st.body, env)
            except TinyExc as ex:
                for h in st.handlers:
                    names = [] if h.type is None else ([norm(x) for x in h.type.elts] if isinstance(h.type, ast.Tuple)
                                                       else [norm(h.type)])
                    if h.type is None or 'Exception' in names or 'BaseException' in names or ex.cls in names:
                        if h.name:
                            env[h.name] = Opaque()
                        self.block(h.body, env)
                        break
                else:
                    self.block(st.finalbody, env)
                    raise
            else:
                self.block(st.orelse, env)
            self.block(st.finalbody, env)
        else:
            raise AnalysisError(f"admission guard: statement outside the interpreted subset: {norm(st)[:60]}")

    def bind(self, t, v, env):
        if isinstance(t, ast.Name):
            env[t.id] = v
        elif isinstance(t, (ast.Tuple, ast.List)) and isinstance(v, (list, tuple)) and len(v) == len(t.elts):
            for e, x in zip(t.elts, v):
                self.bind(e, x, env)
        else:
            raise AnalysisError(f"admission guard: assignment outside the interpreted subset: {norm(t)}")

    @staticmethod
    def truth(v):
        if isinstance(v, (Leaf, Opaque)):
            return True
        return bool(v)

    def ev(self, e, env):
        self.tick(e)
        if isinstance(e, ast.Constant):
            return e.value
        if isinstance(e, ast.Name):
            if e.id in env:
                return env[e.id]
            if e.id in ('True', 'False', 'None'):
                return {'True': True, 'False': False, 'None': None}[e.id]
            return ('name', e.id)          # a global: builtin / class name, resolved where it is used
        if isinstance(e, ast.JoinedStr):
            for p in e.values:
                if isinstance(p, ast.FormattedValue):
                    self.ev(p.value, env)
            return ''
        if isinstance(e, (ast.List, ast.Tuple)):
            return [self.ev(x, env) for x in e.elts]
        if isinstance(e, ast.Attribute):
            self.ev(e.value, env)
            return Opaque()
        if isinstance(e, ast.UnaryOp) and isinstance(e.op, ast.Not):
            return not self.truth(self.ev(e.operand, env))
        if isinstance(e, ast.UnaryOp) and isinstance(e.op, ast.USub):
            return -self.ev(e.operand, env)
        if isinstance(e, ast.BoolOp):
            v = None
            for x in e.values:
                v = self.ev(x, env)
                if isinstance(e.op, ast.And) and not self.truth(v):
                    return v
                if isinstance(e.op, ast.Or) and self.truth(v):
                    return v
            return v
        if isinstance(e, ast.IfExp):
            return self.ev(e.body if self.truth(self.ev(e.test, env)) else e.orelse, env)
        if isinstance(e, ast.BinOp) and isinstance(e.op, (ast.Add, ast.Sub)):
            l, r = self.ev(e.left, env), self.ev(e.right, env)
            if isinstance(l, str) or isinstance(r, str):
                return ''
            if isinstance(l, int) and isinstance(r, int) and not isinstance(l, bool) and not isinstance(r, bool):
                return l + r if isinstance(e.op, ast.Add) else l - r
            if isinstance(l, list) and isinstance(r, list) and isinstance(e.op, ast.Add):
                return l + r
            raise AnalysisError(f"admission guard: arithmetic outside the subset: {norm(e)}")
        if isinstance(e, ast.Compare):
            left = self.ev(e.left, env)
            for op, rt in zip(e.ops, e.comparators):
                right = self.ev(rt, env)
                if not self.cmp(op, left, right, e):
                    return False
                left = right
            return True
        if isinstance(e, ast.Subscript):
            base = self.ev(e.value, env)
            if not isinstance(base, (list, tuple)):
                raise TinyExc('TypeError')
            if isinstance(e.slice, ast.Slice):
                f = lambda x: None if x is None else self.ev(x, env)
                return base[slice(f(e.slice.lower), f(e.slice.upper), f(e.slice.step))]
            i = self.ev(e.slice, env)
            if not isinstance(i, int):
                raise AnalysisError(f"admission guard: index outside the subset: {norm(e)}")
            try:
                return base[i]
            except IndexError:
                raise TinyExc('IndexError')
        if isinstance(e, ast.Call):
            return self.ev_call(e, env)
        raise AnalysisError(f"admission guard: expression outside the interpreted subset: {norm(e)[:60]}")

    def cmp(self, op, a, b, node):
        if isinstance(op, (ast.Is, ast.IsNot)):
            if isinstance(a, Leaf) and isinstance(b, Leaf):
                same = a.tag == b.tag
            elif a is None or b is None or isinstance(a, bool) or isinstance(b, bool):
                same = a is b
            else:
                same = a is b
            return same if isinstance(op, ast.Is) else not same
        if isinstance(op, (ast.Eq, ast.NotEq)):
            def key(x):
                if isinstance(x, Leaf):
                    return ('leaf', x.tag)
                if isinstance(x, (list, tuple)):
                    return tuple(key(y) for y in x)
                return x
            return (key(a) == key(b)) if isinstance(op, ast.Eq) else (key(a) != key(b))
        if isinstance(a, int) and isinstance(b, int):
            import operator as _o
            return {ast.Lt: _o.lt, ast.LtE: _o.le, ast.Gt: _o.gt, ast.GtE: _o.ge}[type(op)](a, b)
        raise AnalysisError(f"admission guard: comparison outside the subset: {norm(node)}")

    def ev_call(self, e, env):
        if e.keywords or any(isinstance(a, ast.Starred) for a in e.args):
            raise AnalysisError(f"admission guard: call outside the subset: {norm(e)[:60]}")
        fn = norm(e.func)
        args = [self.ev(a, env) for a in e.args]
        if fn == 'isinstance' and len(args) == 2:
            t = args[1]
            if t == ('name', 'list'):
                return isinstance(args[0], list)
            if t == ('name', 'type'):
                return isinstance(args[0], Leaf) and args[0].kind != 'nontype'
            raise AnalysisError(f"admission guard: isinstance on {norm(e.args[1])}")
        if fn == 'issubclass' and len(args) == 2 and args[1] == ('name', 'Bits'):
            if not isinstance(args[0], Leaf) or args[0].kind == 'nontype':
                raise TinyExc('TypeError')
            return args[0].kind == 'bits'
        if fn == 'is_bitstruct_class' and len(args) == 1:
            return isinstance(args[0], Leaf) and args[0].kind == 'struct'
        if fn == 'len' and len(args) == 1:
            if not isinstance(args[0], (list, tuple)):
                raise TinyExc('TypeError')
            return len(args[0])
        if fn == 'hasattr':
            return False
        if fn == 'range' and all(isinstance(a, int) for a in args):
            return range(*args)
        if fn in ('print', 'str', 'repr'):
            return ''
        if fn in ('type',) and len(args) == 1:
            return Opaque()
        if fn in self.module.functions:
            return self.call(fn, args)
        raise AnalysisError(f"admission guard: call outside the interpreted subset: {norm(e)[:60]}")


class _Brk(Exception):
    pass


class _Cont(Exception):
    pass


# ---------------------------------------------------------------------------
# Concretisation of the symbolic generator results for ONE concrete type shape (used by the grid rule:
# the symbolic result is unfolded for small shapes, the emitted source is parsed and its statements --
# including loops the generated code itself contains -- are enumerated).
class Shape:
    """bits leaf (width), struct (name, fields) or list (n x elem)"""
    def __init__(self, kind, width=0, name=None, fields=None, n=0, elem=None):
        self.kind, self.width, self.name, self.fields, self.n, self.elem = kind, width, name, fields or [], n, elem

    @property
    def nbits(self):
        if self.kind == 'bits':
            return self.width
        if self.kind == 'struct':
            return sum(f.nbits for _, f in self.fields)
        return self.n * self.elem.nbits

    def __repr__(self):
        if self.kind == 'bits':
            return f"Bits{self.width}"
        if self.kind == 'struct':
            return self.name
        return f"[{self.elem!r}]*{self.n}"


class Opaq:
    """an object of the generator's environment that the analysis does not model (name table, imported function)"""
    def __init__(self, name):
        self.name = name
        self.count = 0


class Concretiser:
    def __init__(self, helpers, budget=400000, folds=()):
        self.helpers = helpers          # name -> object with .fdef, .params, .tpname, .raw {kind: value}
        self.budget = budget
        self.steps = 0
        self.opaque = {}
        self.fold_stack = [list(folds)]  # Fold values whose Carried variables loop segments may mention

    def with_folds(self, value, env):
        """concretise `value`; loop segments see the running value of every variable carried by the same loop"""
        fl = [x for x in walk_values(value) if isinstance(x, Fold)]
        self.fold_stack.append(fl + self.fold_stack[0])
        try:
            return self.c(value, env)
        finally:
            self.fold_stack.pop()

    def tick(self):
        self.steps += 1
        if self.steps > self.budget:
            raise AnalysisError("concretisation of the generator result exceeds its budget")

    def truth(self, t, env):
        if isinstance(t, KindTest):
            x = self.c(t.v, env)
            if t.kind == 'list':
                return isinstance(x, Shape) and x.kind == 'list' or isinstance(x, list)
            return isinstance(x, Shape) and x.kind == t.kind
        if isinstance(t, Const):
            return bool(t.value)
        if isinstance(t, Not):
            return not self.truth(t.v, env)
        if isinstance(t, BoolV):
            vals = [self.truth(x, env) for x in t.vals]
            return all(vals) if t.op == 'and' else any(vals)
        if isinstance(t, Cmp):
            a, b = self.c(t.l, env), self.c(t.r, env)
            if t.op in ('In', 'NotIn') and isinstance(b, Opaq):
                return t.op == 'NotIn'
            import operator as _o
            f = {'Eq': _o.eq, 'NotEq': _o.ne, 'Lt': _o.lt, 'LtE': _o.le, 'Gt': _o.gt, 'GtE': _o.ge,
                 'Is': _o.is_, 'IsNot': _o.is_not, 'In': lambda x, y: x in y, 'NotIn': lambda x, y: x not in y}.get(t.op)
            if f is None:
                raise AnalysisError(f"condition outside the concretiser: {show(t)}")
            try:
                return bool(f(a, b))
            except TypeError:
                raise AnalysisError(f"condition outside the concretiser: {show(t)}")
        v = self.c(t, env)
        if isinstance(v, (bool, int, str, list, tuple, dict)) or v is None:
            return bool(v)
        return True

    def iterate(self, loop, env, flags=()):
        """list of environments, one per iteration of the loop"""
        if flags:
            raise AnalysisError(f"loop with {'/'.join(flags)} cannot be concretised")
        sp = loop.space
        rev = False
        while isinstance(sp, Wrapped):
            if sp.fn == 'reversed':
                rev = not rev
            elif sp.fn not in ('list', 'tuple'):
                raise AnalysisError(f"iteration {show(loop.space)} cannot be concretised")
            sp = sp.space
        out = []
        if isinstance(sp, RangeSp):
            n = self.c(sp.n, env)
            if not sp.complete or sp.dir not in ('asc', 'desc') or not isinstance(n, int):
                raise AnalysisError(f"iteration {sp.desc} cannot be concretised")
            idx = range(n) if sp.dir == 'asc' else range(n - 1, -1, -1)
            out = [{LoopVar(loop, 'idx'): i} for i in idx]
        elif isinstance(sp, (ItemsSp, KeysSp, ValuesSp)):
            d = self.c(sp.d, env)
            if isinstance(d, Shape) and d.kind == 'list':
                d = [d.elem] * d.n
            if isinstance(d, dict):
                out = [{LoopVar(loop, 'key'): k, LoopVar(loop, 'val'): v} for k, v in d.items()]
            elif isinstance(d, (list, tuple)) and isinstance(sp, KeysSp):
                out = [{LoopVar(loop, 'key'): x} for x in d]
            elif isinstance(d, Opaq):
                out = []
            else:
                raise AnalysisError(f"iteration over {show(sp)} cannot be concretised")
        elif isinstance(sp, EnumSp):
            d = self.c(sp.v, env)
            if isinstance(d, Shape) and d.kind == 'list':
                d = [d.elem] * d.n
            out = [{LoopVar(loop, 'idx'): i, LoopVar(loop, 'elem'): x} for i, x in enumerate(d)]
        elif isinstance(sp, SeqSp):
            out = [{LoopVar(loop, 'elem'): x} for x in self.c(sp.v, env)]
        else:
            raise AnalysisError(f"iteration {show(sp)} cannot be concretised")
        return list(reversed(out)) if rev else out

    def segs(self, segs, env):
        out = []
        for s in segs:
            if isinstance(s, Item):
                out.append(self.c(s.v, env))
            elif isinstance(s, Splice):
                v = self.c(s.v, env)
                if not isinstance(v, (list, tuple)):
                    raise AnalysisError(f"splice of a non-sequence: {show(s.v)}")
                out.extend(v)
            elif isinstance(s, LoopSeg):
                fl = []
                for f in self.fold_stack[-1]:
                    if f.loop == s.loop and f not in fl:
                        fl.append(f)
                accs = [self.c(f.init, env) for f in fl]
                for b in self.iterate(s.loop, env, s.flags):
                    e2 = dict(env)
                    e2.update(b)
                    for f, acc in zip(fl, accs):
                        e2[Carried(f.loop, f.name)] = acc
                    out.extend(self.segs(s.segs, e2))
                    accs = [self.c(f.step, e2) for f in fl]
            elif isinstance(s, CondSeg):
                if self.truth(s.test, env) == s.pol:
                    out.extend(self.segs(s.segs, env))
            else:
                raise AnalysisError(f"segment {s!r}")
        return out

    def c(self, v, env):
        self.tick()
        if isinstance(v, V) and v in env:
            return env[v]
        if isinstance(v, Const):
            return v.value
        if isinstance(v, Lin):
            tot = v.const
            for a, k in v.terms:
                x = self.c(a, env)
                if isinstance(x, bool) or not isinstance(x, int):
                    raise AnalysisError(f"non-integer term {show(a)} in {show(v)}")
                tot += k * x
            return tot
        if isinstance(v, Tmpl):
            out = []
            for p in v.parts:
                if isinstance(p, str):
                    out.append(p)
                else:
                    x = self.c(p, env)
                    out.append(x.name if isinstance(x, (Opaq, Shape)) and getattr(x, 'name', None) else str(x))
            return ''.join(out)
        if isinstance(v, Fmt):
            return str(self.c(v.v, env))
        if isinstance(v, Join):
            return str(self.c(v.sep, env)).join(str(x) for x in self.c(v.seq, env))
        if isinstance(v, SeqV):
            return self.segs(v.segs, env)
        if isinstance(v, DictV):
            return dict((tuple(kv) if isinstance(kv, list) else kv) for kv in self.segs(v.segs, env))
        if isinstance(v, Rev):
            return list(reversed(self.c(v.v, env)))
        if isinstance(v, Tup):
            return tuple(self.c(x, env) for x in v.items)
        if isinstance(v, Proj):
            return self.c(v.v, env)[v.k]
        if isinstance(v, Phi):
            return self.c(v.a if self.truth(v.test, env) else v.b, env)
        if isinstance(v, KindTest) or isinstance(v, (Cmp, BoolV, Not)):
            return self.truth(v, env)
        if isinstance(v, Len):
            x = self.c(v.v, env)
            if isinstance(x, Shape) and x.kind == 'list':
                return x.n
            if isinstance(x, Opaq):
                x.count += 1
                return x.count
            return len(x)
        if isinstance(v, Attr):
            x = self.c(v.v, env)
            if isinstance(x, Shape):
                if v.name == 'nbits':
                    return x.nbits
                if v.name == '__name__':
                    return repr(x)
            if isinstance(x, Opaq):
                return self.opaque.setdefault(f"{x.name}.{v.name}", Opaq(f"{x.name}.{v.name}"))
            raise AnalysisError(f"attribute {show(v)} cannot be concretised")
        if isinstance(v, FieldsOf):
            x = self.c(v.v, env)
            if isinstance(x, Shape) and x.kind == 'struct':
                return dict(x.fields)
            raise AnalysisError(f"{show(v)}: not a struct shape")
        if isinstance(v, Sub):
            x = self.c(v.v, env)
            i = self.c(v.idx, env)
            if isinstance(x, Shape) and x.kind == 'list':
                return x.elem
            if isinstance(x, Opaq):
                return Opaq(f"{x.name}_{getattr(i, 'name', None) or i!r}".replace('*', 'x').replace('[', '_').replace(']', '_'))
            try:
                return x[i]
            except Exception:
                raise AnalysisError(f"subscript {show(v)} cannot be concretised")
        if isinstance(v, Bin):
            import operator as _o
            f = {'FloorDiv': _o.floordiv, 'Mod': _o.mod, 'Mult': _o.mul, 'Add': _o.add, 'Sub': _o.sub, 'LShift': _o.lshift,
                 'RShift': _o.rshift, 'BitAnd': _o.and_, 'BitOr': _o.or_, 'BitXor': _o.xor}.get(v.op)
            a, b = self.c(v.l, env), self.c(v.r, env)
            if f is None or not all(isinstance(x, (int, str)) and not isinstance(x, bool) for x in (a, b)):
                raise AnalysisError(f"operation outside the concretiser: {show(v)}")
            try:
                return f(a, b)
            except Exception:
                raise AnalysisError(f"operation outside the concretiser: {show(v)}")
        if isinstance(v, Innermost):
            x = self.c(v.v, env)
            while isinstance(x, Shape) and x.kind == 'list':
                x = x.elem
            return x
        if isinstance(v, Fold):
            # all variables carried by the same loop are folded together (`a, b = f(a, b), g(a, b)`)
            fl = [v] + [f for f in self.fold_stack[-1] if f.loop == v.loop and f.name != v.name]
            seen, group = set(), []
            for f in fl:
                if f.name not in seen:
                    seen.add(f.name)
                    group.append(f)
            accs = []
            for f in group:
                try:
                    accs.append(self.c(f.init, env))
                except AnalysisError:
                    if f is v:
                        raise
                    accs.append(None)
            for b in self.iterate(v.loop, env):
                e2 = dict(env)
                e2.update(b)
                for f, acc in zip(group, accs):
                    if acc is not None or f is v:
                        e2[Carried(f.loop, f.name)] = acc
                nxt = []
                for f, acc in zip(group, accs):
                    try:
                        nxt.append(self.c(f.step, e2) if (acc is not None or f is v) else None)
                    except AnalysisError:
                        if f is v:
                            raise
                        nxt.append(None)
                accs = nxt
            return accs[0]
        if isinstance(v, CallV):
            return self.libcall(v, env)
        if isinstance(v, Rec):
            return self.unfold(v, env)
        if isinstance(v, Fn):
            return dict(name=self.c(v.name, env), args=self.c(v.args, env), body=self.c(v.body, env))
        if isinstance(v, Sym):
            return self.opaque.setdefault(v.name, Opaq(v.name))
        if isinstance(v, LastIter):
            raise AnalysisError(f"value of a loop variable used after its loop: {show(v)}")
        if isinstance(v, (int, str)):
            return v
        raise AnalysisError(f"value outside the concretiser: {show(v)[:80]}")

    def libcall(self, v, env):
        """the few library calls generators use on concrete data (itertools.product, map(range, ..), zip, reduce)"""
        import itertools
        args = [self.c(a, env) for a in v.args]

        def expand(xs):
            out = []
            for x in xs:
                if isinstance(x, tuple) and len(x) == 2 and x[0] == '*':
                    out.extend(x[1])
                else:
                    out.append(x)
            return out
        name = v.fn
        if name == '*':
            return ('*', list(args[0]))
        if name == 'map' and len(args) == 2 and isinstance(args[0], Opaq) and args[0].name == 'range':
            return [range(x) for x in args[1]]
        if name == '.product' and isinstance(args[0], Opaq) and args[0].name == 'itertools':
            return [tuple(x) for x in itertools.product(*expand(args[1:]))]
        if name == 'zip':
            return [tuple(x) for x in zip(*expand(args))]
        if name == '.reduce' and isinstance(args[0], Opaq) and args[0].name == 'functools' and len(args) in (3, 4) \
                and isinstance(args[1], Opaq) and args[1].name in ('operator.mul', 'operator.add'):
            acc = args[3] if len(args) == 4 else (1 if args[1].name.endswith('mul') else 0)
            for x in args[2]:
                acc = acc * x if args[1].name.endswith('mul') else acc + x
            return acc
        if name == 'range' and all(isinstance(a, int) for a in args):
            return list(range(*args))
        if name in ('list', 'tuple') and len(args) == 1:
            return list(args[0])
        if name == 'sum' and len(args) == 1:
            return sum(args[0])
        raise AnalysisError(f"call outside the concretiser: {show(v)[:80]}")

    def run_opaque(self, rec, env):
        """a recursive function of the module that is not a traversal helper, applied to a concrete type shape:
        interpreted by the tiny interpreter over nested lists of leaf tokens"""
        module = getattr(self, 'module', None)
        if module is None or rec.fn not in module.functions:
            raise AnalysisError(f"recursive helper {rec.fn} was not analysed")
        table = {}

        def down(x):
            if isinstance(x, Shape) and x.kind == 'list':
                return [down(x.elem) for _ in range(x.n)]
            if isinstance(x, Shape):
                lf = table.setdefault(id(x), (Leaf(f"T{len(table)}", x.kind), x))
                return lf[0]
            if isinstance(x, (int, str)):
                return x
            raise AnalysisError(f"argument of {rec.fn} outside the tiny interpreter")

        def up(x):
            if isinstance(x, Leaf):
                for lf, sh in table.values():
                    if lf is x:
                        return sh
            if isinstance(x, (list, tuple)):
                return [up(y) for y in x]
            return x
        args = [down(self.c(a, env)) for a in rec.args]
        try:
            return up(TinyInterp(module).call(rec.fn, args))
        except TinyExc as ex:
            raise AnalysisError(f"{rec.fn} raises {ex.cls} on a grid shape")

    def unfold(self, rec, env):
        h = self.helpers.get(rec.fn)
        if h is None:
            return self.run_opaque(rec, env)
        e2 = {}
        for n, val in rec.closure:
            e2[Sym(n)] = self.c(val, env)
        a = h.fdef.args
        defaults = dict(zip([x.arg for x in a.args][len(a.args) - len(a.defaults):], a.defaults))
        for pname, arg in zip(h.params, rec.args):
            if isinstance(arg, Sym) and arg.name.startswith('<default '):
                try:
                    e2[Sym(pname)] = ast.literal_eval(defaults[pname])
                except Exception:
                    raise AnalysisError(f"default of {pname} in {rec.fn} is not a literal")
            else:
                e2[Sym(pname)] = self.c(arg, env)
        t = e2[Sym(h.tpname)]
        if not isinstance(t, Shape):
            raise AnalysisError(f"{rec.fn} is applied to {t!r}, not to a type")
        try:
            key = (rec.fn, tuple(sorted((k.name, id(v) if isinstance(v, (Shape, Opaq)) else v) for k, v in e2.items())))
            hash(key)
        except TypeError:
            key = None
        memo = self.__dict__.setdefault('memo', {})
        if key is not None and key in memo:
            return memo[key]
        out = self.with_folds(h.raw[t.kind], e2)
        if key is not None:
            memo[key] = out
        return out


# ---- enumeration of what EMITTED code does (loops in the emitted code are iterated concretely)
def emitted_path(node, env):
    """access path text with concrete indices, or None"""
    if isinstance(node, ast.Name):
        return node.id
    if isinstance(node, ast.Attribute):
        b = emitted_path(node.value, env)
        return None if b is None else f"{b}.{node.attr}"
    if isinstance(node, ast.Subscript) and not isinstance(node.slice, ast.Slice):
        b = emitted_path(node.value, env)
        i = emitted_int(node.slice, env)
        return None if b is None or i is None else f"{b}[{i}]"
    return None


def emitted_int(e, env):
    if isinstance(e, ast.Constant) and isinstance(e.value, int) and not isinstance(e.value, bool):
        return e.value
    if isinstance(e, ast.Name):
        return env.get(e.id)
    if isinstance(e, ast.UnaryOp) and isinstance(e.op, ast.USub):
        v = emitted_int(e.operand, env)
        return None if v is None else -v
    if isinstance(e, ast.BinOp) and isinstance(e.op, (ast.Add, ast.Sub, ast.Mult)):
        l, r = emitted_int(e.left, env), emitted_int(e.right, env)
        if l is None or r is None:
            return None
        return l + r if isinstance(e.op, ast.Add) else l - r if isinstance(e.op, ast.Sub) else l * r
    return None


def emitted_struct(e, env):
    """normal form of an emitted expression"""
    if isinstance(e, ast.List):
        return ('list', tuple(emitted_struct(x, env) for x in e.elts))
    if isinstance(e, ast.Call):
        f = emitted_path(e.func, env) or norm(e.func)
        if e.keywords:
            return ('expr', norm(e))
        return ('call', f, tuple(emitted_struct(x, env) for x in e.args))
    if isinstance(e, ast.Subscript) and isinstance(e.slice, ast.Slice):
        lo = None if e.slice.lower is None else emitted_int(e.slice.lower, env)
        hi = None if e.slice.upper is None else emitted_int(e.slice.upper, env)
        return ('slice', emitted_path(e.value, env) or norm(e.value), lo, hi, e.slice.step is not None)
    p = emitted_path(e, env)
    if p is not None:
        return ('path', p)
    return ('expr', norm(e))


def emitted_actions(fdef, limit=4096):
    """the actions the emitted function performs, loops of the emitted code unrolled:
    ('aug', op, target path, source path) / ('call', callee path, args) / ('assign', target, value) /
    ('return', normal form) / ('if', test text) for a top-level conditional (not entered)"""
    out = []

    def block(stmts, env, top):
        for st in stmts:
            if len(out) > limit:
                raise AnalysisError("emitted code performs too many actions to enumerate")
            if isinstance(st, ast.For):
                it = st.iter
                if not (isinstance(it, ast.Call) and norm(it.func) == 'range' and isinstance(st.target, ast.Name)
                        and not st.orelse):
                    raise AnalysisError(f"emitted loop outside the enumerated subset: {norm(st.iter)}")
                args = [emitted_int(a, env) for a in it.args]
                if any(a is None for a in args):
                    raise AnalysisError(f"emitted loop bound is not a number: {norm(it)}")
                for i in range(*args):
                    e2 = dict(env)
                    e2[st.target.id] = i
                    block(st.body, e2, False)
            elif isinstance(st, ast.AugAssign):
                val = emitted_path(st.value, env)
                if val is None:
                    sv = emitted_struct(st.value, env)
                    val = sv if sv[0] == 'slice' else norm(st.value)
                out.append(('aug', type(st.op).__name__, emitted_path(st.target, env) or norm(st.target), val))
            elif isinstance(st, ast.Assign):
                out.append(('assign', tuple(emitted_path(t, env) or norm(t) for t in st.targets), emitted_struct(st.value, env)))
            elif isinstance(st, ast.Expr) and isinstance(st.value, ast.Call):
                out.append(('call',) + emitted_struct(st.value, env)[1:])
            elif isinstance(st, ast.Return):
                out.append(('return', None if st.value is None else emitted_struct(st.value, env)))
            elif isinstance(st, ast.If) and top:
                out.append(('if', norm(st.test)))
                n0 = len(out)
                block(st.body, env, False)
                out[n0:] = [('cond', a) for a in out[n0:]]
                if st.orelse:
                    raise AnalysisError("emitted conditional with an else branch")
            elif isinstance(st, (ast.Pass, ast.Assert)) or (isinstance(st, ast.Expr) and isinstance(st.value, ast.Constant)):
                pass
            else:
                raise AnalysisError(f"emitted statement outside the enumerated subset: {norm(st)[:60]}")
    block(fdef.body, {}, True)
    return out


# ---------------------------------------------------------------------------
# Concrete-shape mode of the generator evaluator (used by the grid rule): the field table is a concrete
# dict name -> Shape, so every kind test, len(), range() and dict lookup is decided; `for` / `while` loops
# over concrete sequences are unrolled, recursive helpers are really recursed, and the result is the concrete
# source text of the generated function(s) for that shape.  This is what lets an ITERATIVE generator (a loop
# over list dimensions instead of a recursion per element) be judged at all.  Anything that stays symbolic
# falls back to the symbolic machinery or raises AnalysisError.
ShapeV = _vclass('ShapeV', 'shape')


def _all_items(x):
    segs = x.segs if isinstance(x, (ListObj, SeqV, DictV)) else None
    return segs is not None and all(isinstance(s, Item) for s in segs)


class ConcreteEval(GenEval):
    MAX_DEPTH = 40
    MAX_ITER = 512

    def __init__(self, module):
        super().__init__(module, kind=None, field_loops_focus=False)
        self.iters = 0

    # -- decided facts ---------------------------------------------------------------
    def truth(self, v):
        if isinstance(v, KindTest):
            x = unlin(v.v)
            if isinstance(x, ShapeV):
                return x.shape.kind == v.kind
            if isinstance(x, (SeqV, DictV)):
                return v.kind == 'list' and isinstance(x, SeqV)
            if isinstance(x, (Const, Lin, Tmpl)):
                return False
            return None
        if isinstance(v, Cmp) and v.op in ('Eq', 'NotEq', 'Is', 'IsNot'):
            a, b = unlin(v.l), unlin(v.r)
            if self.is_concrete(a) and self.is_concrete(b):
                same = (tmpl_text(a) == tmpl_text(b)) if tmpl_text(a) is not None and tmpl_text(b) is not None else a == b
                return same if v.op in ('Eq', 'Is') else not same
        return super().truth(v)

    @staticmethod
    def is_concrete(v):
        if isinstance(v, (ShapeV, Const)):
            return True
        if isinstance(v, Lin):
            return v.is_const
        if isinstance(v, Tmpl):
            return tmpl_text(v) is not None
        if isinstance(v, Tup):
            return all(ConcreteEval.is_concrete(x) for x in v.items)
        return False

    def fields_obj(self, sh):
        d = DictObj()
        for n, f in sh.fields:
            d.segs.append(Item(Tup((Const(n), ShapeV(f)))))
        return d

    # -- calls: real recursion --------------------------------------------------------
    def call(self, fobj, args, kwargs, star_ok=True):
        fdef = fobj.fdef
        self.depth += 1
        if self.depth > self.MAX_DEPTH:
            raise AnalysisError(f"recursion too deep evaluating {fdef.name} on a grid shape")
        try:
            env = Env(self, fobj.env)
            self.bind_params(fdef, args, kwargs, env, fobj.env)
            sig = self.exec_block(fdef.body, env)
        finally:
            self.depth -= 1
        if sig is not None and sig[0] in ('break', 'continue'):
            raise AnalysisError(f"loop control escaped function {fdef.name}")
        return self.finish(sig, fdef.name)

    # -- loops: unrolled over concrete sequences ---------------------------------------------
    def concrete_seq(self, v):
        """list of element values if v is a concrete sequence, else None"""
        if isinstance(v, (ListObj, SeqV)) and not isinstance(v, DictObj) and _all_items(v):
            return [s.v for s in v.segs]
        if isinstance(v, (DictObj, DictV)) and _all_items(v):
            return [s.v.items[0] for s in v.segs]
        if isinstance(v, ShapeV) and v.shape.kind == 'list':
            return [ShapeV(v.shape.elem)] * v.shape.n
        if isinstance(v, Tup):
            return list(v.items)
        return None

    def exec_for(self, st, env):
        seq = self.concrete_seq(self.ev(st.iter, env))
        if seq is None:
            return super().exec_for(st, env)
        for x in seq:
            self.iters += 1
            if self.iters > self.MAX_ITER * 8:
                raise AnalysisError("generator loops too long on a grid shape")
            self.assign(st.target, x, env)
            sig = self.exec_block(st.body, env)
            if sig is None or sig[0] == 'continue':
                continue
            if sig[0] == 'break':
                return None
            if sig[0] == 'partial':
                raise AnalysisError("undecided condition inside a concrete loop")
            return sig
        return self.exec_block(st.orelse, env) if st.orelse else None

    def exec_while(self, st, env):
        for _ in range(self.MAX_ITER):
            t = self.truth(self.ev(st.test, env))
            if t is None:
                return super().exec_while(st, env)
            if not t:
                return self.exec_block(st.orelse, env) if st.orelse else None
            sig = self.exec_block(st.body, env)
            if sig is None or sig[0] == 'continue':
                continue
            if sig[0] == 'break':
                return None
            if sig[0] == 'partial':
                raise AnalysisError("undecided condition inside a concrete loop")
            return sig
        raise AnalysisError(f"while loop does not terminate on a grid shape: {norm(st.test)[:50]}")

    def _comp(self, gens, env, emit):
        g = gens[0]
        seq = self.concrete_seq(self.ev(g.iter, env))
        if seq is None:
            return super()._comp(gens, env, emit)
        out = []
        for x in seq:
            inner = Env(self, env)
            self.assign(g.target, x, inner)
            ts = [self.truth(freeze(self.ev(c, inner))) for c in g.ifs]
            if any(t is None for t in ts):
                raise AnalysisError("undecided filter in a concrete comprehension")
            if not all(ts):
                continue
            if len(gens) > 1:
                out.extend(self._comp(gens[1:], inner, emit))
            else:
                out.append(emit(inner))
        return tuple(out)

    # -- expressions -------------------------------------------------------------------------
    def ev_Attribute(self, e, env):
        base = self.ev(e.value, env)
        if isinstance(base, ShapeV):
            sh = base.shape
            if e.attr == 'nbits':
                return Lin(sh.nbits)
            if e.attr == '__name__':
                return Const(repr(sh))
            if e.attr == '__bitstruct_fields__' and sh.kind == 'struct':
                return self.fields_obj(sh)
        return super().ev_Attribute(e, env)

    def ev_Subscript(self, e, env):
        base = self.ev(e.value, env)
        if isinstance(base, ShapeV) and base.shape.kind == 'list' and not isinstance(e.slice, ast.Slice):
            i = self.ev(e.slice, env)
            if isinstance(i, Lin) and i.is_const and -base.shape.n <= i.const < base.shape.n:
                return ShapeV(base.shape.elem)
            raise AnalysisError(f"index {norm(e.slice)} out of range of a grid shape")
        if isinstance(base, DictObj) and _all_items(base) and not isinstance(e.slice, ast.Slice):
            k = freeze(self.ev(e.slice, env))
            if self.is_concrete(k):
                for s_ in reversed(base.segs):
                    if self.truth(Cmp('Eq', s_.v.items[0], k)):
                        return s_.v.items[1]
                raise AnalysisError(f"key {show(k)} missing in {norm(e.value)} on a grid shape")
        if isinstance(base, (ListObj, SeqV)) and not isinstance(base, DictObj) and _all_items(base):
            segs = list(base.segs)
            if isinstance(e.slice, ast.Slice):
                f = lambda x: None if x is None else self.ev(x, env)
                lo, hi, stp = f(e.slice.lower), f(e.slice.upper), f(e.slice.step)
                if all(x is None or (isinstance(x, Lin) and x.is_const) for x in (lo, hi, stp)):
                    g = lambda x: None if x is None else x.const
                    return ListObj(segs[slice(g(lo), g(hi), g(stp))])
            else:
                i = self.ev(e.slice, env)
                if isinstance(i, Lin) and i.is_const and -len(segs) <= i.const < len(segs):
                    return segs[i.const].v
        return super().ev_Subscript(e, env)

    def ev_Compare(self, e, env):
        if len(e.ops) == 1 and isinstance(e.ops[0], (ast.In, ast.NotIn)):
            l = freeze(self.ev(e.left, env))
            r = self.ev(e.comparators[0], env)
            seq = self.concrete_seq(r)
            if seq is not None and self.is_concrete(l):
                hit = any(self.truth(Cmp('Eq', x, l)) for x in seq)
                return Const(hit if isinstance(e.ops[0], ast.In) else not hit)
        return super().ev_Compare(e, env)

    def builtin(self, name, args, kwargs, node):
        fa = [freeze(a) for a in args]
        if name == 'range' and not kwargs and all(isinstance(a, Lin) and a.is_const for a in fa):
            return ListObj(Item(Lin(i)) for i in range(*[a.const for a in fa]))
        if name == 'len' and len(fa) == 1:
            seq = self.concrete_seq(args[0])
            if seq is not None:
                return Lin(len(seq))
            t = tmpl_text(fa[0])
            if t is not None:
                return Lin(len(t))
        if name in ('reversed', 'list', 'tuple') and len(args) == 1:
            seq = self.concrete_seq(args[0])
            if seq is not None:
                return ListObj(Item(x) for x in (reversed(seq) if name == 'reversed' else seq))
        if name == 'enumerate' and len(args) == 1:
            seq = self.concrete_seq(args[0])
            if seq is not None:
                return ListObj(Item(Tup((Lin(i), x))) for i, x in enumerate(seq))
        if name == 'getattr' and len(fa) == 2 and isinstance(fa[0], ShapeV):
            t = tmpl_text(fa[1])
            if t == '__bitstruct_fields__' and fa[0].shape.kind == 'struct':
                return self.fields_obj(fa[0].shape)
            if t == 'nbits':
                return Lin(fa[0].shape.nbits)
        if name == 'sorted' and len(args) == 1:
            seq = self.concrete_seq(args[0])
            if seq is not None and all(self.is_concrete(x) for x in seq):
                return ListObj(Item(x) for x in sorted(seq, key=show))
        return super().builtin(name, args, kwargs, node)

    def method(self, recv, name, args, kwargs, node):
        if isinstance(recv, (DictObj, DictV)) and _all_items(recv) and name in ('items', 'keys', 'values') and not args:
            pick = {'items': lambda t: t, 'keys': lambda t: t.items[0], 'values': lambda t: t.items[1]}[name]
            return ListObj(Item(pick(s_.v)) for s_ in recv.segs)
        if name == 'join' and len(args) == 1:
            sep = tmpl_text(freeze(recv))
            seq = self.concrete_seq(args[0])
            if sep is not None and seq is not None and all(tmpl_text(x) is not None for x in seq):
                return Const(sep.join(tmpl_text(x) for x in seq))
        return super().method(recv, name, args, kwargs, node)

    def binop(self, op, l, r, node):
        if isinstance(op, (ast.FloorDiv, ast.Mod)):
            a, b = freeze(l), freeze(r)
            if isinstance(a, Lin) and isinstance(b, Lin) and a.is_const and b.is_const and b.const:
                return Lin(a.const // b.const if isinstance(op, ast.FloorDiv) else a.const % b.const)
        if isinstance(op, ast.Mult):
            a, b = freeze(l), freeze(r)
            if isinstance(a, Lin) and isinstance(b, Lin) and a.is_const and b.is_const:
                return Lin(a.const * b.const)
        return super().binop(op, l, r, node)


def eval_concrete(module, fdef, fields, extra=None):
    """run a generator for a concrete field table (ordered name -> Shape); returns the list of generated functions as
    dicts(name, args, body) and the other (non-function) results, in the order returned"""
    ev = ConcreteEval(module)
    env = Env(ev)
    table = DictObj()
    for n, sh in fields.items():
        table.segs.append(Item(Tup((Const(n), ShapeV(sh)))))
    params = [a.arg for a in fdef.args.args]
    for pname in params:
        if extra and pname in extra:
            env.set(pname, extra[pname])
    unbound = [pname for pname in params if not env.has(pname)]
    if len(unbound) != 1:
        raise AnalysisError(f"{fdef.name}: cannot tell which parameter is the field table ({unbound})")
    env.set(unbound[0], table)
    sig = ev.exec_block(fdef.body, env)
    res = ev.finish(sig, fdef.name) if sig is not None else None
    items = res.items if isinstance(res, Tup) else (res,)
    out = []
    for it in items:
        if isinstance(it, Fn):
            def texts(seq, what):
                if not isinstance(seq, SeqV) or not _all_items(seq):
                    raise AnalysisError(f"{fdef.name}: {what} of the generated function is not concrete on a grid shape")
                ts = [tmpl_text(s_.v) for s_ in seq.segs]
                if any(t is None for t in ts):
                    bad = [show(s_.v) for s_ in seq.segs if tmpl_text(s_.v) is None][0]
                    raise AnalysisError(f"{fdef.name}: emitted text {bad[:60]} is not concrete on a grid shape")
                return ts
            name = tmpl_text(it.name)
            if name is None:
                raise AnalysisError(f"{fdef.name}: computed function name")
            out.append(dict(name=name, args=texts(it.args, 'the parameter list'), body=texts(it.body, 'the body')))
        elif isinstance(it, Lin) and it.is_const:
            out.append(it.const)
        else:
            out.append(it)
    return out, ev
