"""Mutation self-test of the checker (thorough tier).

Each property module lists MUTANTS (one instance broken; the variant must
still compile and the named rule must report it) and EQUIV (behaviour-
preserving rewrites; every rule must stay silent).  Variants are analysed
through the loader's in-memory overlay -- the scratch copy never touches the
disk, /repo and /verif are not modified.
"""
import ast
import os
from concurrent.futures import ProcessPoolExecutor

from .errors import AnalysisError
from .loader import Repo
from . import report


def _apply(src, old, new, count=1):
    n = src.count(old)
    if n == 0:
        return None
    if count == 'first':
        return src.replace(old, new, 1)
    if count and n != count:
        return None
    return src.replace(old, new)


def _one(args):
    modname, root, spec, kind = args
    import importlib
    mod = importlib.import_module(modname)
    overlay = {}
    edits = spec.get('edits') or [dict(file=spec['file'], old=spec['old'], new=spec['new'],
                                       count=spec.get('count', 1))]
    for e in edits:
        base = overlay.get(e['file'])
        if base is None:
            try:
                with open(os.path.join(root, e['file'])) as f:
                    base = f.read()
            except OSError:
                return (spec['name'], 'stale', 'file missing')
        m = _apply(base, e['old'], e['new'], e.get('count', 1))
        if m is None:
            return (spec['name'], 'stale', 'anchor text not found (tree differs from the reference)')
        try:
            compile(m, e['file'], 'exec', dont_inherit=True)
        except SyntaxError as ex:
            return (spec['name'], 'stale', f'mutant does not compile: {ex}')
        overlay[e['file']] = m
    repo = Repo(root, overlay)
    try:
        status, results, violations = report.run_property(
            mod.PID, mod.RULES, repo, 'thorough', '', [], write_evidence=False, quiet=True)
    except Exception as e:
        if not isinstance(e, AnalysisError):
            import traceback
            return (spec['name'], 'survived' if kind == 'mutant' else 'alarm',
                    'INTERNAL ERROR in the checker: ' + traceback.format_exc().strip().splitlines()[-1])
        # an analysis error on a mutant means the checker refuses to pass it: counts as detected
        # for MUTANTS, and as an alarm for EQUIV
        return (spec['name'], 'killed' if kind == 'mutant' else 'alarm', f'ANALYSIS-ERROR {e}')
    rules_hit = sorted({v.rule for v in violations})
    if kind == 'mutant':
        want = spec.get('rule')
        if violations and (want is None or any(r == want or r.startswith(want) for r in rules_hit)):
            return (spec['name'], 'killed', ','.join(rules_hit))
        return (spec['name'], 'survived', ','.join(rules_hit) or 'no rule fired')
    else:
        if violations:
            return (spec['name'], 'alarm', '; '.join(f"{v.rule}: {v.message}" for v in violations[:3]))
        return (spec['name'], 'silent', '')


def run(mod, root, jobs=None):
    muts = list(getattr(mod, 'MUTANTS', []))
    eqs = list(getattr(mod, 'EQUIV', []))
    work = [(mod.__name__, root, m, 'mutant') for m in muts] + [(mod.__name__, root, m, 'equiv') for m in eqs]
    out = []
    if work:
        jobs = jobs or min(16, os.cpu_count() or 4, len(work))
        if jobs <= 1:
            out = [_one(w) for w in work]
        else:
            with ProcessPoolExecutor(max_workers=jobs) as ex:
                out = list(ex.map(_one, work))
    killed = [o for o in out if o[1] == 'killed']
    survived = [f"{o[0]} ({o[2]})" for o in out if o[1] == 'survived']
    stale = [f"{o[0]} ({o[2]})" for o in out if o[1] == 'stale']
    silent = [o for o in out if o[1] == 'silent']
    alarms = [f"{o[0]} ({o[2]})" for o in out if o[1] == 'alarm']
    summary = dict(mutants=len(muts), killed=len(killed), survived=len(survived), stale=len(stale),
                   equivalent_rewrites=len(eqs), equivalent_silent=len(silent), equivalent_flagged=len(alarms),
                   killed_by={o[0]: o[2] for o in killed}, stale_list=stale)
    return dict(summary=summary, survived=survived, equiv_alarms=alarms)
