"""Helpers for C11 (generated SCC super-blocks).

Two pieces, both purely static:

* ``SrcBuilder`` -- partial evaluation ("TemplateDom"/"SeqDom" of DESIGN.md section 2) of the Python
  code that *builds* generated source text: string templates, f-strings, ``.format``, ``sep.join``,
  lists of generated lines filled by ``append``/``extend``/``+=`` inside loops and branches, the
  dictionary of globals handed to ``exec``.  Only the backward slice of the statements that feed an
  ``exec`` site is interpreted; unknown values are symbols (``Sym``) which are printed as
  identifier-like placeholders; loops over unknown containers are unrolled once or twice ("plans"),
  branches on unknown conditions fork.  The result is the set of source texts (with the globals
  dictionary) the analysed function can hand to ``exec`` -- never the code under analysis being run
  on concrete inputs.

* ``enum_paths`` -- a bounded path enumerator over structured statements (if / while / for / break /
  continue / return / raise), loops unrolled at most ``max_iter`` times, used both on the parsed
  generated code and on small loop bodies of the real code (path-sensitive must-rules).
"""
import ast
import string
import textwrap

from .astutil import norm, walk_no_nested, dotted
from .errors import AnalysisError


# ---------------------------------------------------------------------------
# symbolic values
class Sym:
    __slots__ = ('key',)

    def __init__(self, key):
        self.key = key

    def __eq__(self, other):
        return isinstance(other, Sym) and other.key == self.key

    def __hash__(self):
        return hash(self.key)

    def __repr__(self):
        return f"Sym{self.key!r}"


class FuncVal:
    def __init__(self, node):
        self.node = node


def keyof(v):
    if isinstance(v, Sym):
        return v.key
    if isinstance(v, FuncVal):
        return ('func', v.node.name)
    if isinstance(v, (list, tuple)):
        return ('seq',) + tuple(keyof(x) for x in v)
    if isinstance(v, dict):
        return ('dict',) + tuple((str(k), keyof(x)) for k, x in v.items())
    return ('const', repr(v))


def key_mentions(key, sub):
    """does the (nested tuple) key contain `sub` as a sub-term"""
    if key == sub:
        return True
    if isinstance(key, tuple):
        return any(key_mentions(k, sub) for k in key)
    return False


class TDict(dict):
    """a dictionary created by the interpreted code; remembers how often it was handed to exec as the globals
    mapping and which keys were (re-)assigned after it had been handed over once"""
    def __init__(self, *a, **k):
        super().__init__(*a, **k)
        self.uses = 0
        self.rewritten = set()
        self.clobbered = {}      # key -> number of times a DIFFERENT value replaced the one stored under it

    def wrote(self, key):
        if self.uses:
            self.rewritten.add(key)


def _copy_val(v, memo):
    if isinstance(v, list):
        if id(v) in memo:
            return memo[id(v)]
        n = []
        memo[id(v)] = n
        n.extend(_copy_val(x, memo) for x in v)
        return n
    if isinstance(v, dict):
        if id(v) in memo:
            return memo[id(v)]
        n = TDict() if isinstance(v, TDict) else {}
        if isinstance(v, TDict):
            n.uses, n.rewritten, n.clobbered = v.uses, set(v.rewritten), dict(v.clobbered)
        memo[id(v)] = n
        for k, x in v.items():
            n[k] = _copy_val(x, memo)
        return n
    if isinstance(v, tuple):
        return tuple(_copy_val(x, memo) for x in v)
    return v


class Emit:
    """one hand-over of generated source text to exec"""
    def __init__(self, src, raw, globs, call, func, choices, plan, reuse=1, rewritten=(), clobbered=None):
        self.src, self.raw, self.globals = src, raw, globs
        self.clobbered = dict(clobbered or {})                 # globals keys under which different objects were stored
        self.reuse, self.rewritten = reuse, tuple(rewritten)   # n-th exec with this very mapping / keys re-assigned since
        self.call, self.func = call, func          # the exec call node, the FunctionDef it sits in
        self.choices, self.plan = choices, plan    # fork decisions / loop plan that produced it

    @property
    def globals_arg(self):
        return self.call.args[1] if len(self.call.args) > 1 else None

    @property
    def locals_arg(self):
        a = self.call.args
        return a[2] if len(a) > 2 else (a[1] if len(a) > 1 else None)


class _State:
    def __init__(self):
        self.frames = [{}]
        self.nonlocals = [set()]
        self.emits = []
        self.status = 'ok'
        self.retval = None
        self.choices = []
        self.attrs = {}          # (symbol key, attribute) -> value stored by `obj.attr = value`

    def clone(self):
        s = _State()
        memo = {}
        s.attrs = dict(self.attrs)
        s.frames = [_copy_val(f, memo) for f in self.frames]
        s.nonlocals = [set(x) for x in self.nonlocals]
        s.emits = list(self.emits)
        s.status, s.retval = self.status, self.retval
        s.choices = list(self.choices)
        return s

    _MISSING = object()

    def lookup(self, name):
        for f in reversed(self.frames):
            if name in f:
                return f[name]
        return _State._MISSING

    def store(self, name, v):
        if name in self.nonlocals[-1]:
            for f in reversed(self.frames[:-1]):
                if name in f:
                    f[name] = v
                    return
            self.frames[0][name] = v
            return
        self.frames[-1][name] = v

    def forget(self, name):
        for f in reversed(self.frames):
            if name in f:
                del f[name]
                return


_MUTATORS = {'append', 'extend', 'insert', 'update', 'add', 'setdefault', 'pop', 'clear', 'remove'}
_SAFE_STR = {'strip', 'lstrip', 'rstrip', 'replace', 'upper', 'lower', 'removeprefix', 'removesuffix', 'split',
             'rsplit', 'startswith', 'endswith', 'ljust', 'rjust', 'zfill', 'title', 'capitalize', 'partition',
             'rpartition', 'find', 'rfind', 'index', 'count', 'splitlines', 'center', 'expandtabs'}
_SAME_ELEMS = {'sorted', 'list', 'tuple', 'reversed', 'set', 'frozenset', 'iter'}
_CTX = ('all_rel', 'inloop')


def names_strpos(e, bound=frozenset()):
    """Names occurring in *string-constructive* positions of an expression: iteration sources,
    conditions, dictionary values and lambda bodies are opaque to the slice."""
    out = set()

    def visit(n, bound):
        if isinstance(n, ast.Name):
            if n.id not in bound:
                out.add(n.id)
        elif isinstance(n, (ast.ListComp, ast.GeneratorExp, ast.SetComp)):
            b = set(bound)
            for g in n.generators:
                b |= {x.id for x in ast.walk(g.target) if isinstance(x, ast.Name)}
            visit(n.elt, b)
        elif isinstance(n, ast.DictComp):
            return
        elif isinstance(n, ast.Dict):
            for k in n.keys:
                if k is not None:
                    visit(k, bound)
        elif isinstance(n, ast.Lambda):
            return
        elif isinstance(n, ast.IfExp):
            visit(n.body, bound)
            visit(n.orelse, bound)
        else:
            for ch in ast.iter_child_nodes(n):
                visit(ch, bound)
    visit(e, bound)
    return out


def _target_names(t):
    return {x.id for x in ast.walk(t) if isinstance(x, ast.Name) and isinstance(x.ctx, ast.Store)}


class SrcBuilder:
    def __init__(self, root, exec_names=('custom_exec', 'exec'), on_bind=None, max_paths=6000):
        self.root = root
        self.exec_names = set(exec_names)
        self.on_bind = on_bind            # callback(builder, state, name, value, loop_node, k)
        self.max_paths = max_paths
        self.repr_models = {}             # Sym key -> modelled repr() string
        self.placeholders = {}            # Sym key -> placeholder text
        self.symloops = {}                # id(loop node) -> node, loops iterated over a symbolic container
        self.loop_container = {}          # id(loop node) -> key of the symbolic container it iterates
        self.plan = {}
        self.npaths = 0
        self._rel_cache = {}
        self.exec_sites = [n for n in ast.walk(root) if isinstance(n, ast.Call) and isinstance(n.func, ast.Name)
                           and n.func.id in self.exec_names]
        if not self.exec_sites:
            raise AnalysisError(f"anchor vanished: no exec site ({'/'.join(sorted(self.exec_names))}) in {root.name}")
        self.local_defs = {n.name: n for n in ast.walk(root) if isinstance(n, ast.FunctionDef) and n is not root}
        self.emit_funcs = {name for name, d in self.local_defs.items()
                           if any(s in list(ast.walk(d)) for s in self.exec_sites)}
        self.tracked = self._closure()

    # -- slicing ------------------------------------------------------------
    def _closure(self):
        tracked = set()
        for c in self.exec_sites:
            for a in c.args[:2]:
                tracked |= names_strpos(_peel_code_arg(a)[0])
        # scopes of the slice: the root function itself and the local helpers that contain an exec site
        scope = list(walk_no_nested(self.root))
        for name in sorted(self.emit_funcs):
            scope += list(ast.walk(self.local_defs[name]))
        stmts = [n for n in scope if isinstance(n, ast.stmt)]
        calls = [n for n in scope if isinstance(n, ast.Call)]
        changed = True
        while changed:
            before = len(tracked)
            for st in stmts:
                if isinstance(st, ast.Assign):
                    for t in st.targets:
                        if isinstance(t, (ast.Tuple, ast.List)) and isinstance(st.value, (ast.Tuple, ast.List)) \
                                and len(t.elts) == len(st.value.elts):
                            for te, ve in zip(t.elts, st.value.elts):
                                if _target_names(te) & tracked:
                                    tracked |= names_strpos(ve)
                        elif isinstance(t, ast.Subscript):
                            if isinstance(t.value, ast.Name) and t.value.id in tracked:
                                tracked |= names_strpos(t.slice)
                        elif isinstance(t, ast.Attribute):
                            # obj.attr = value on a tracked object (e.g. b.__name__ = f"...")
                            if isinstance(t.value, ast.Name) and t.value.id in tracked:
                                tracked |= names_strpos(st.value)
                        elif _target_names(t) & tracked:
                            tracked |= names_strpos(st.value)
                elif isinstance(st, ast.AugAssign):
                    if isinstance(st.target, ast.Name) and st.target.id in tracked:
                        tracked |= names_strpos(st.value)
                elif isinstance(st, ast.AnnAssign) and st.value is not None:
                    if _target_names(st.target) & tracked:
                        tracked |= names_strpos(st.value)
            for c in calls:
                f = c.func
                if isinstance(f, ast.Attribute) and isinstance(f.value, ast.Name) and f.value.id in tracked \
                        and f.attr in _MUTATORS:
                    for a in c.args:
                        tracked |= names_strpos(a)
                elif isinstance(f, ast.Name) and f.id in self.local_defs:
                    d = self.local_defs[f.id]
                    params = [a.arg for a in d.args.args]
                    for p, a in zip(params, c.args):
                        if p in tracked:
                            tracked |= names_strpos(a)
                    for kw in c.keywords:
                        if kw.arg in tracked:
                            tracked |= names_strpos(kw.value)
            changed = len(tracked) != before
        return tracked

    def _base_relevant(self, stmt):
        r = self._rel_cache.get(id(stmt))
        if r is not None:
            return r
        r = False
        for n in walk_no_nested(stmt):
            if isinstance(n, ast.Name) and isinstance(n.ctx, (ast.Store, ast.Del)) and n.id in self.tracked:
                r = True
            elif isinstance(n, ast.Call):
                f = n.func
                if isinstance(f, ast.Name) and (f.id in self.exec_names or f.id in self.emit_funcs):
                    r = True
                elif isinstance(f, ast.Attribute) and isinstance(f.value, ast.Name) and f.value.id in self.tracked \
                        and f.attr in _MUTATORS:
                    r = True
            elif isinstance(n, (ast.Subscript, ast.Attribute)) and isinstance(n.ctx, ast.Store) \
                    and isinstance(n.value, ast.Name) and n.value.id in self.tracked:
                r = True
            if r:
                break
        self._rel_cache[id(stmt)] = r
        return r

    @staticmethod
    def _loose_jump(stmt):
        """does stmt contain a break/continue that belongs to a loop outside stmt"""
        def rec(n):
            if isinstance(n, (ast.Break, ast.Continue)):
                return True
            if isinstance(n, (ast.For, ast.While, ast.FunctionDef, ast.Lambda, ast.ClassDef)):
                return False
            return any(rec(ch) for ch in ast.iter_child_nodes(n))
        if isinstance(stmt, (ast.For, ast.While)):
            return False
        return rec(stmt)

    def relevant(self, stmt, ctx):
        if ctx['all_rel'] or self._base_relevant(stmt):
            return True
        return ctx['inloop'] and self._loose_jump(stmt)

    # -- driver -------------------------------------------------------------
    def run_plan(self, plan):
        self.plan = dict(plan)
        st = _State()
        out = []
        ctx = dict(all_rel=False, inloop=False)
        for s in self._block(self.root.body, st, ctx):
            for e in s.emits:
                out.append(e)
        return out

    def run_all(self, triple=None):
        """emits of the default plan (every symbolic loop once), of each plan that doubles one loop and -- for the
        loops selected by `triple(loop node)` -- of the plan that runs that loop three times"""
        self.run_plan({})                 # discovery pass: which loops iterate which symbolic containers
        emits = list(self.run_plan({}))
        for lid in list(self.symloops):
            emits.extend(self.run_plan({lid: 2}))
        for lid, node in list(self.symloops.items()):
            if triple is not None and triple(node):
                emits.extend(self.run_plan({lid: 3}))
        seen, uniq = set(), []
        for e in emits:
            k = (e.src, keyof(e.globals) if e.globals is not None else None, id(e.call), e.reuse, e.rewritten)
            if k not in seen:
                seen.add(k)
                uniq.append(e)
        return uniq

    # -- values -------------------------------------------------------------
    def placeholder(self, sym):
        p = self.placeholders.get(sym.key)
        if p is None:
            p = f"_p{len(self.placeholders)}"
            self.placeholders[sym.key] = p
        return p

    def tostr(self, v):
        if isinstance(v, str):
            return v
        if isinstance(v, Sym):
            return self.placeholder(v)
        if v is None or isinstance(v, (bool, int)):
            return str(v)
        raise AnalysisError(f"cannot print a {type(v).__name__} into generated source")

    def do_repr(self, v):
        if isinstance(v, Sym):
            m = self.repr_models.get(v.key)
            return m if m is not None else Sym(('repr', v.key))
        if isinstance(v, (str, int, bool)) or v is None:
            return repr(v)
        return Sym(('repr', keyof(v)))

    def dkey(self, v):
        if isinstance(v, (str, int)):
            return v
        return self.tostr(v)

    # -- statements ---------------------------------------------------------
    def _fork(self, st):
        self.npaths += 1
        if self.npaths > self.max_paths:
            raise AnalysisError("source-building slice forks into too many paths")
        return st.clone()

    def _block(self, stmts, st, ctx):
        if st.status != 'ok' or not stmts:
            yield st
            return
        for s1 in self._stmt(stmts[0], st, ctx):
            if s1.status != 'ok':
                yield s1
            else:
                yield from self._block(stmts[1:], s1, ctx)

    def _stmt(self, stmt, st, ctx):
        if isinstance(stmt, ast.FunctionDef):
            st.store(stmt.name, FuncVal(stmt))
            yield st
            return
        if not self.relevant(stmt, ctx):
            for n in walk_no_nested(stmt):
                if isinstance(n, ast.Name) and isinstance(n.ctx, ast.Store):
                    st.forget(n.id)
            yield st
            return
        if isinstance(stmt, ast.Assign):
            v = self.ev(stmt.value, st)
            for t in stmt.targets:
                self.assign(t, v, st)
            yield st
        elif isinstance(stmt, ast.AnnAssign):
            if stmt.value is not None:
                self.assign(stmt.target, self.ev(stmt.value, st), st)
            yield st
        elif isinstance(stmt, ast.AugAssign):
            load = ast.copy_location(ast.Name(id=stmt.target.id, ctx=ast.Load()), stmt.target) \
                if isinstance(stmt.target, ast.Name) else None
            if load is None:
                yield st
                return
            cur = self.ev(load, st)
            rhs = self.ev(stmt.value, st)
            if isinstance(cur, list) and isinstance(stmt.op, ast.Add) and isinstance(rhs, (list, tuple)):
                cur.extend(rhs)        # in-place, aliases preserved
            else:
                st.store(stmt.target.id, self.binop(stmt.op, cur, rhs))
            yield st
        elif isinstance(stmt, ast.Expr):
            self.ev(stmt.value, st)
            yield st
        elif isinstance(stmt, ast.If):
            t = self.truth(self.ev(stmt.test, st))
            if t is True:
                yield from self._block(stmt.body, st, ctx)
            elif t is False:
                yield from self._block(stmt.orelse, st, ctx)
            else:
                s2 = self._fork(st)
                st.choices.append((norm(stmt.test), True))
                s2.choices.append((norm(stmt.test), False))
                yield from self._block(stmt.body, st, ctx)
                yield from self._block(stmt.orelse, s2, ctx)
        elif isinstance(stmt, ast.For):
            yield from self._for(stmt, st, ctx)
        elif isinstance(stmt, ast.While):
            raise AnalysisError(f"while loop inside the source-building slice: {norm(stmt.test)}")
        elif isinstance(stmt, ast.Return):
            st.retval = self.ev(stmt.value, st) if stmt.value is not None else None
            st.status = 'return'
            yield st
        elif isinstance(stmt, ast.Raise):
            st.status = 'raise'
            yield st
        elif isinstance(stmt, ast.Break):
            st.status = 'break'
            yield st
        elif isinstance(stmt, ast.Continue):
            st.status = 'continue'
            yield st
        elif isinstance(stmt, (ast.Nonlocal, ast.Global)):
            st.nonlocals[-1] |= set(stmt.names)
            yield st
        elif isinstance(stmt, (ast.Pass, ast.Import, ast.ImportFrom, ast.Assert, ast.Delete)):
            yield st
        elif isinstance(stmt, ast.With):
            yield from self._block(stmt.body, st, ctx)
        elif isinstance(stmt, ast.Try):
            yield from self._block(list(stmt.body) + list(stmt.orelse) + list(stmt.finalbody), st, ctx)
        else:
            raise AnalysisError(f"statement outside the source-building domain: {norm(stmt)[:80]}")

    def _elements(self, it, node):
        if isinstance(it, (list, tuple)):
            if len(it) > 16:
                raise AnalysisError("concrete loop too long in the source-building slice")
            return list(it)
        if isinstance(it, dict):
            return list(it.keys())
        if isinstance(it, str):
            return list(it)
        if isinstance(it, Sym):
            self.symloops.setdefault(id(node), node)
            self.loop_container[id(node)] = it.key[1] if it.key[0] == 'enumerate' else it.key
            n = self.plan.get(id(node), 1)
            if it.key[0] == 'enumerate':
                inner, start = it.key[1], it.key[2]
                return [(start + k, Sym(('elem', inner, k))) for k in range(n)]
            return [Sym(('elem', it.key, k)) for k in range(n)]
        raise AnalysisError(f"cannot iterate a {type(it).__name__} in the source-building slice")

    def _for(self, stmt, st, ctx):
        elems = self._elements(self.ev(stmt.iter, st), stmt)
        ctx2 = dict(ctx, inloop=True)

        def iters(s, k):
            if k == len(elems):
                yield from self._block(stmt.orelse, s, ctx)
                return
            self.assign(stmt.target, elems[k], s, loop=(stmt, k))
            for s1 in self._block(stmt.body, s, ctx2):
                if s1.status == 'break':
                    s1.status = 'ok'
                    yield s1
                elif s1.status in ('ok', 'continue'):
                    s1.status = 'ok'
                    yield from iters(s1, k + 1)
                else:
                    yield s1
        yield from iters(st, 0)

    def assign(self, t, v, st, loop=None):
        if isinstance(t, ast.Name):
            st.store(t.id, v)
            if loop is not None and self.on_bind is not None:
                self.on_bind(self, st, t.id, v, loop[0], loop[1])
        elif isinstance(t, (ast.Tuple, ast.List)):
            if any(isinstance(x, ast.Starred) for x in t.elts):
                raise AnalysisError("starred assignment in the source-building slice")
            if isinstance(v, (tuple, list)):
                if len(v) != len(t.elts):
                    raise AnalysisError(f"cannot unpack {len(v)} values into {norm(t)}")
                for te, ve in zip(t.elts, v):
                    self.assign(te, ve, st, loop)
            elif isinstance(v, Sym):
                for i, te in enumerate(t.elts):
                    self.assign(te, Sym(('unpack', v.key, i)), st, loop)
            else:
                raise AnalysisError(f"cannot unpack a {type(v).__name__} into {norm(t)}")
        elif isinstance(t, ast.Subscript):
            base = self.ev(t.value, st)
            idx = self.ev(t.slice, st)
            if isinstance(base, dict):
                k = self.dkey(idx)
                if isinstance(base, TDict) and k in base and keyof(base[k]) != keyof(v):
                    base.clobbered[k] = base.clobbered.get(k, 0) + 1
                base[k] = v
                if isinstance(base, TDict):
                    base.wrote(k)
            elif isinstance(base, list) and isinstance(idx, int) and -len(base) <= idx < len(base):
                base[idx] = v
        elif isinstance(t, ast.Attribute):
            base = self.ev(t.value, st)
            if isinstance(base, Sym):
                st.attrs[(base.key, t.attr)] = v
        else:
            raise AnalysisError(f"assignment target outside the source-building domain: {norm(t)}")

    # -- expressions --------------------------------------------------------
    @staticmethod
    def truth(v):
        if isinstance(v, Sym):
            return None
        return bool(v)

    def binop(self, op, a, b):
        conc = (int, str, list, tuple, bool)
        if isinstance(op, ast.Add) and (isinstance(a, str) or isinstance(b, str)) and \
                (isinstance(a, Sym) or isinstance(b, Sym)):
            return self.tostr(a) + self.tostr(b)
        if isinstance(op, ast.Mod) and isinstance(a, str):
            return self.percent(a, b)
        if isinstance(a, conc) and isinstance(b, conc):
            try:
                import operator as _o
                f = {ast.Add: _o.add, ast.Sub: _o.sub, ast.Mult: _o.mul, ast.FloorDiv: _o.floordiv, ast.Mod: _o.mod,
                     ast.LShift: _o.lshift, ast.RShift: _o.rshift, ast.BitAnd: _o.and_, ast.BitOr: _o.or_,
                     ast.BitXor: _o.xor}.get(type(op))
                if f is not None:
                    r = f(a, b)
                    if isinstance(r, (int, str)) and not isinstance(r, bool) and isinstance(r, int) and abs(r) > 10**9:
                        raise AnalysisError("integer overflow in the source-building slice")
                    if isinstance(r, (str, list, tuple)) and len(r) > 10**6:
                        raise AnalysisError("value too large in the source-building slice")
                    return r
            except (TypeError, ZeroDivisionError):
                pass
        return Sym(('bin', type(op).__name__, keyof(a), keyof(b)))

    def percent(self, fmt, b):
        """printf-style formatting with symbolic arguments: %r goes through the repr model"""
        import re
        if isinstance(b, dict):
            raise AnalysisError("%-formatting with a mapping is outside the domain")
        vals = list(b) if isinstance(b, tuple) else [b]
        out, pos, i = [], 0, 0
        for mt in re.finditer(r'%(?:[#0\- +]*)(?:\d+)?(?:\.\d+)?([a-zA-Z%])', fmt):
            out.append(fmt[pos:mt.start()])
            pos = mt.end()
            conv = mt.group(1)
            if conv == '%':
                out.append('%')
                continue
            if i >= len(vals):
                raise AnalysisError("%-format has more fields than arguments")
            v = vals[i]
            i += 1
            if conv in ('r', 'a'):
                v = self.do_repr(v)
                out.append(self.tostr(v))
            elif isinstance(v, Sym) or conv == 's':
                out.append(self.tostr(v))
            else:
                try:
                    out.append(mt.group(0) % v)
                except (TypeError, ValueError) as e:
                    raise AnalysisError(f"%-formatting outside the domain: {e}")
        out.append(fmt[pos:])
        return ''.join(out)

    def ev(self, e, st):
        m = getattr(self, 'ev_' + type(e).__name__, None)
        if m is None:
            return Sym(('expr', norm(e)))
        return m(e, st)

    def ev_Constant(self, e, st):
        return e.value

    def ev_Name(self, e, st):
        v = st.lookup(e.id)
        if v is _State._MISSING:
            if e.id in ('True', 'False', 'None'):
                return {'True': True, 'False': False, 'None': None}[e.id]
            return Sym(('free', e.id))
        return v

    def ev_JoinedStr(self, e, st):
        out = []
        for p in e.values:
            if isinstance(p, ast.Constant):
                out.append(str(p.value))
            elif isinstance(p, ast.FormattedValue):
                v = self.ev(p.value, st)
                if p.conversion == ord('r') or p.conversion == ord('a'):
                    v = self.do_repr(v)
                spec = self.ev(p.format_spec, st) if p.format_spec is not None else ''
                if spec and not isinstance(v, Sym) and isinstance(spec, str):
                    try:
                        out.append(format(v, spec))
                        continue
                    except (TypeError, ValueError):
                        pass
                out.append(self.tostr(v))
            else:
                raise AnalysisError("f-string part outside the domain")
        return ''.join(out)

    def ev_Attribute(self, e, st):
        b = self.ev(e.value, st)
        if isinstance(b, FuncVal) and e.attr == '__name__':
            return b.node.name
        if isinstance(b, Sym):
            if (b.key, e.attr) in st.attrs:
                return st.attrs[(b.key, e.attr)]
            return Sym(('attr', b.key, e.attr))
        return Sym(('attr', keyof(b), e.attr))

    def ev_Slice(self, e, st):
        parts = [None if x is None else self.ev(x, st) for x in (e.lower, e.upper, e.step)]
        if any(isinstance(p, Sym) for p in parts):
            return Sym(('slice',) + tuple(keyof(p) for p in parts))
        return slice(*parts)

    def ev_Subscript(self, e, st):
        b = self.ev(e.value, st)
        i = self.ev(e.slice, st)
        if isinstance(b, (str, list, tuple)) and isinstance(i, (int, slice)) and not isinstance(i, bool):
            try:
                return b[i]
            except IndexError:
                pass
        if isinstance(b, dict) and not isinstance(i, slice):
            k = self.dkey(i)
            if k in b:
                return b[k]
        ik = ('slice', repr(i)) if isinstance(i, slice) else keyof(i)
        return Sym(('sub', keyof(b), ik))

    def ev_BinOp(self, e, st):
        return self.binop(e.op, self.ev(e.left, st), self.ev(e.right, st))

    def ev_UnaryOp(self, e, st):
        v = self.ev(e.operand, st)
        if isinstance(v, Sym):
            return Sym(('un', type(e.op).__name__, v.key))
        try:
            if isinstance(e.op, ast.Not):
                return not v
            if isinstance(e.op, ast.USub):
                return -v
            if isinstance(e.op, ast.UAdd):
                return +v
            if isinstance(e.op, ast.Invert):
                return ~v
        except TypeError:
            pass
        return Sym(('un', type(e.op).__name__, keyof(v)))

    def ev_BoolOp(self, e, st):
        vals = [self.ev(x, st) for x in e.values]
        if any(isinstance(v, Sym) for v in vals):
            # short-circuit on the concrete prefix
            for v in vals:
                if isinstance(v, Sym):
                    break
                if isinstance(e.op, ast.And) and not v:
                    return v
                if isinstance(e.op, ast.Or) and v:
                    return v
            return Sym(('bool', type(e.op).__name__) + tuple(keyof(v) for v in vals))
        r = vals[0]
        for v in vals:
            r = v
            if isinstance(e.op, ast.And) and not v:
                break
            if isinstance(e.op, ast.Or) and v:
                break
        return r

    def ev_Compare(self, e, st):
        vals = [self.ev(e.left, st)] + [self.ev(c, st) for c in e.comparators]
        if any(isinstance(v, (Sym, FuncVal)) for v in vals):
            return Sym(('cmp', norm(e)) + tuple(keyof(v) for v in vals))
        import operator as _o
        table = {ast.Lt: _o.lt, ast.LtE: _o.le, ast.Gt: _o.gt, ast.GtE: _o.ge, ast.Eq: _o.eq, ast.NotEq: _o.ne,
                 ast.Is: _o.is_, ast.IsNot: _o.is_not, ast.In: lambda a, b: a in b, ast.NotIn: lambda a, b: a not in b}
        try:
            for op, a, b in zip(e.ops, vals, vals[1:]):
                if not table[type(op)](a, b):
                    return False
            return True
        except TypeError:
            return Sym(('cmp', norm(e)))

    def ev_IfExp(self, e, st):
        t = self.truth(self.ev(e.test, st))
        if t is True:
            return self.ev(e.body, st)
        if t is False:
            return self.ev(e.orelse, st)
        return Sym(('ifexp', norm(e)))

    def ev_List(self, e, st):
        if any(isinstance(x, ast.Starred) for x in e.elts):
            raise AnalysisError("starred list display in the source-building slice")
        return [self.ev(x, st) for x in e.elts]

    def ev_Tuple(self, e, st):
        if any(isinstance(x, ast.Starred) for x in e.elts):
            raise AnalysisError("starred tuple display in the source-building slice")
        return tuple(self.ev(x, st) for x in e.elts)

    def ev_Set(self, e, st):
        return [self.ev(x, st) for x in e.elts]

    def ev_Dict(self, e, st):
        d = TDict()
        for k, v in zip(e.keys, e.values):
            if k is None:
                inner = self.ev(v, st)
                if isinstance(inner, dict):
                    d.update(inner)
                else:
                    return Sym(('dict**', keyof(inner)))
            else:
                d[self.dkey(self.ev(k, st))] = self.ev(v, st)
        return d

    def ev_Lambda(self, e, st):
        return Sym(('lambda', norm(e)))

    def _comp(self, e, st, elt_fn):
        if len(e.generators) != 1:
            raise AnalysisError("nested comprehension in the source-building slice")
        g = e.generators[0]
        it = self.ev(g.iter, st)
        if isinstance(it, Sym):
            inner = it.key
            base = inner[1] if inner[0] == 'enumerate' else inner
            # a comprehension over a container that a statement loop also iterates is unrolled as often as that loop
            same = [lid for lid, ck in self.loop_container.items() if ck == base]
            cnt = self.plan.get(same[0], 1) if same else 2
            if inner[0] == 'enumerate':
                elems = [(inner[2] + k, Sym(('elem', inner[1], k))) for k in range(cnt)]
            else:
                elems = [Sym(('elem', inner, k)) for k in range(cnt)]
        else:
            elems = self._elements(it, e)
        out = []
        st.frames.append({})
        st.nonlocals.append(set())
        try:
            for el in elems:
                self.assign(g.target, el, st)
                keep = True
                for c in g.ifs:
                    if self.truth(self.ev(c, st)) is False:
                        keep = False
                if keep:
                    out.append(elt_fn(st))
        finally:
            st.frames.pop()
            st.nonlocals.pop()
        return out

    def ev_ListComp(self, e, st):
        return self._comp(e, st, lambda s: self.ev(e.elt, s))

    ev_GeneratorExp = ev_ListComp
    ev_SetComp = ev_ListComp

    def ev_DictComp(self, e, st):
        pairs = self._comp(e, st, lambda s: (self.dkey(self.ev(e.key, s)), self.ev(e.value, s)))
        return TDict(pairs)

    def ev_Call(self, e, st):
        f = e.func
        if any(isinstance(a, ast.Starred) for a in e.args) or any(k.arg is None for k in e.keywords):
            return Sym(('call*', norm(e)))
        if isinstance(f, ast.Name) and f.id in self.exec_names and st.lookup(f.id) is _State._MISSING:
            return self._emit(e, st)
        args = [self.ev(a, st) for a in e.args]
        kwargs = {k.arg: self.ev(k.value, st) for k in e.keywords}
        if isinstance(f, ast.Attribute):
            recv = self.ev(f.value, st)
            return self.call_method(recv, f.attr, args, kwargs, e)
        if isinstance(f, ast.Name):
            fv = st.lookup(f.id)
            if isinstance(fv, FuncVal):
                return self.inline(fv, args, kwargs, st, e)
            if fv is _State._MISSING:
                r = self.call_builtin(f.id, args, kwargs)
                if r is not NotImplemented:
                    return r
        return Sym(('call', keyof(self.ev(f, st)), tuple(keyof(a) for a in args),
                    tuple(sorted((k, keyof(v)) for k, v in kwargs.items()))))

    def call_builtin(self, name, args, kwargs):
        if name == 'repr' and len(args) == 1:
            return self.do_repr(args[0])
        if name in _SAME_ELEMS and len(args) == 1:
            a = args[0]
            if isinstance(a, Sym):
                return a
            if isinstance(a, dict):
                a = list(a.keys())
            if isinstance(a, (list, tuple)):
                if name == 'sorted':
                    if all(isinstance(x, str) for x in a) or all(isinstance(x, int) for x in a):
                        return sorted(a) if not kwargs else list(a)
                    return list(a)
                if name == 'reversed':
                    return list(reversed(a))
                return tuple(a) if name in ('tuple',) else list(a)
            return NotImplemented
        if name == 'enumerate' and args:
            start = args[1] if len(args) > 1 else kwargs.get('start', 0)
            if not isinstance(start, int):
                return NotImplemented
            a = args[0]
            if isinstance(a, Sym):
                return Sym(('enumerate', a.key, start))
            if isinstance(a, (list, tuple)):
                return [(start + i, x) for i, x in enumerate(a)]
            return NotImplemented
        if name == 'len' and len(args) == 1:
            a = args[0]
            if isinstance(a, (str, list, tuple, dict)):
                return len(a)
            return NotImplemented
        if name == 'range' and args and all(isinstance(a, int) for a in args):
            r = range(*args)
            if len(r) <= 16:
                return list(r)
            return Sym(('range',) + tuple(args))
        if name in ('str',) and len(args) == 1 and isinstance(args[0], (str, int)):
            return str(args[0])
        if name == 'int' and len(args) == 1 and isinstance(args[0], (int, bool)):
            return int(args[0])
        if name in ('max', 'min', 'abs', 'sum') and args and all(isinstance(a, int) for a in args) and not kwargs:
            return {'max': max, 'min': min, 'abs': abs, 'sum': lambda *a: sum(a)}[name](*args)
        if name == 'dict' and not args:
            return TDict(kwargs)
        if name == 'dict' and len(args) == 1 and isinstance(args[0], dict):
            d = TDict(args[0])
            d.update(kwargs)
            return d
        return NotImplemented

    def call_method(self, recv, name, args, kwargs, e):
        generic = Sym(('call', ('attr', keyof(recv), name), tuple(keyof(a) for a in args),
                       tuple(sorted((k, keyof(v)) for k, v in kwargs.items()))))
        if isinstance(recv, list):
            if name == 'append' and len(args) == 1:
                recv.append(args[0])
                return None
            if name == 'extend' and len(args) == 1:
                if isinstance(args[0], (list, tuple)):
                    recv.extend(args[0])
                    return None
                raise AnalysisError(f"extend with an unknown sequence in the source-building slice: {norm(e)}")
            if name == 'insert' and len(args) == 2 and isinstance(args[0], int):
                recv.insert(args[0], args[1])
                return None
            if name == 'copy':
                return list(recv)
            if name == 'clear':
                del recv[:]
                return None
            if name == 'pop':
                try:
                    return recv.pop(*[a for a in args if isinstance(a, int)])
                except IndexError:
                    return generic
            if name == 'reverse':
                recv.reverse()
                return None
            return generic
        if isinstance(recv, dict):
            if name == 'items':
                return [(k, v) for k, v in recv.items()]
            if name == 'keys':
                return list(recv.keys())
            if name == 'values':
                return list(recv.values())
            if name == 'get' and args:
                return recv.get(self.dkey(args[0]), args[1] if len(args) > 1 else None)
            if name == 'update':
                before = dict(recv)
                if args and isinstance(args[0], dict):
                    recv.update(args[0])
                elif args:
                    recv['**' + self.tostr(Sym(keyof(args[0])))] = args[0]   # unknown mapping merged in
                recv.update(kwargs)
                if isinstance(recv, TDict):
                    for k in recv:
                        if k not in before or keyof(before[k]) != keyof(recv[k]):
                            recv.wrote(k)
                return None
            if name == 'setdefault' and args:
                k = self.dkey(args[0])
                if k not in recv and isinstance(recv, TDict):
                    recv.wrote(k)
                return recv.setdefault(k, args[1] if len(args) > 1 else None)
            if name == 'copy':
                return TDict(recv)
            return generic
        if isinstance(recv, str):
            if name == 'join' and len(args) == 1:
                a = args[0]
                if isinstance(a, (list, tuple)):
                    return recv.join(self.tostr(x) for x in a)
                if isinstance(a, Sym):
                    return Sym(('join', recv, a.key))
                raise AnalysisError(f"join of a {type(a).__name__} in the source-building slice")
            if name == 'format':
                return self.fmt(recv, args, kwargs)
            if name in _SAFE_STR and all(isinstance(a, (str, int, tuple)) for a in args) and \
                    all(isinstance(a, (str, int)) for a in kwargs.values()):
                try:
                    return getattr(recv, name)(*args, **kwargs)
                except (TypeError, ValueError):
                    return generic
            return generic
        return generic

    def fmt(self, template, args, kwargs):
        out = []
        auto = 0
        try:
            parsed = list(string.Formatter().parse(template))
        except ValueError as ex:
            raise AnalysisError(f"malformed format template: {ex}")
        for lit, field, spec, conv in parsed:
            out.append(lit)
            if field is None:
                continue
            if field == '':
                idx, auto = auto, auto + 1
                if idx >= len(args):
                    raise AnalysisError("format template has more fields than arguments")
                v = args[idx]
            elif field.isdigit():
                if int(field) >= len(args):
                    raise AnalysisError(f"format field {{{field}}} has no argument")
                v = args[int(field)]
            elif field.isidentifier():
                if field not in kwargs:
                    raise AnalysisError(f"format field {{{field}}} has no argument")
                v = kwargs[field]
            else:
                raise AnalysisError(f"format field {{{field}}} outside the domain")
            if conv in ('r', 'a'):
                v = self.do_repr(v)
            if spec and not isinstance(v, Sym):
                try:
                    out.append(format(v, spec))
                    continue
                except (TypeError, ValueError):
                    pass
            out.append(self.tostr(v))
        return ''.join(out)

    def inline(self, fv, args, kwargs, st, call):
        d = fv.node
        a = d.args
        if a.vararg or a.kwarg or a.posonlyargs:
            return Sym(('call', ('func', d.name)))
        params = [x.arg for x in a.args]
        if len(args) > len(params):
            raise AnalysisError(f"too many arguments in call of local function {d.name}")
        frame = {}
        defaults = dict(zip(params[len(params) - len(a.defaults):], a.defaults))
        for p, v in zip(params, args):
            frame[p] = v
        for k, v in kwargs.items():
            frame[k] = v
        for p in params:
            if p not in frame:
                if p in defaults:
                    frame[p] = self.ev(defaults[p], st)
                else:
                    raise AnalysisError(f"missing argument {p} in call of local function {d.name}")
        st.frames.append(frame)
        st.nonlocals.append(set())
        depth = len(st.frames)
        if depth > 6:
            raise AnalysisError("recursion in the source-building slice")
        res = list(self._block(d.body, st, dict(all_rel=True, inloop=False)))
        if len(res) != 1 or res[0] is not st:
            raise AnalysisError(f"local function {d.name} forks; cannot be inlined into an expression")
        st.frames.pop()
        st.nonlocals.pop()
        if st.status == 'raise':
            return Sym(('raised', d.name))
        st.status = 'ok'
        rv, st.retval = st.retval, None
        return rv

    def _emit(self, call, st):
        if not call.args:
            raise AnalysisError("exec site without a code argument")
        code, dedent = _peel_code_arg(call.args[0])
        src = self.ev(code, st)
        if not isinstance(src, str):
            raise AnalysisError(f"source handed to exec is not a statically known template: {norm(call.args[0])}")
        g = self.ev(call.args[1], st) if len(call.args) > 1 else None
        reuse, rewritten, clobbered = 1, (), {}
        if isinstance(g, TDict):
            g.uses += 1
            reuse, rewritten, clobbered = g.uses, sorted(g.rewritten), dict(g.clobbered)
        if isinstance(g, dict):
            g = dict(g)
        func = call
        while func is not None and not isinstance(func, ast.FunctionDef):
            func = getattr(func, '_parent', None)
        st.emits.append(Emit(textwrap.dedent(src) if dedent else src, src, g, call, func,
                             list(st.choices), dict(self.plan), reuse, rewritten, clobbered))
        return None


def _peel_code_arg(a):
    """strip py.code.Source(X).compile() / compile(X, ...) wrappers: returns (X, dedented?)"""
    dedent = False
    while True:
        if isinstance(a, ast.Call) and isinstance(a.func, ast.Attribute) and a.func.attr == 'compile' and not a.args:
            a = a.func.value
            continue
        if isinstance(a, ast.Call) and (dotted(a.func) or '').split('.')[-1] == 'Source' and len(a.args) == 1:
            dedent = True
            a = a.args[0]
            continue
        if isinstance(a, ast.Call) and isinstance(a.func, ast.Name) and a.func.id == 'compile' and a.args:
            a = a.args[0]
            continue
        return a, dedent


# ---------------------------------------------------------------------------
# bounded path enumeration over structured statements
def const_truth(e):
    """True/False for a test that is a literal constant, else None"""
    if isinstance(e, ast.Constant):
        return bool(e.value)
    return None


class Paths:
    """Enumerates (events, outcome) for a statement list.  events: ('stmt', node), ('branch', test, taken),
    ('iter', loop, k), ('exhaust', loop), ('raise', node), ('return', node), ('cut', loop);
    outcome in fall / break / continue / return / raise / cut."""
    def __init__(self, max_iter=2, cap=40000):
        self.max_iter, self.cap, self.count = max_iter, cap, 0

    def _tick(self, n=1):
        self.count += n
        if self.count > self.cap:
            raise AnalysisError("too many paths in the bounded path enumeration")

    def block(self, stmts):
        res = [((), 'fall')]
        for st in stmts:
            nxt = []
            tails = None
            for ev, out in res:
                if out != 'fall':
                    nxt.append((ev, out))
                    continue
                if tails is None:
                    tails = self.stmt(st)
                for ev2, out2 in tails:
                    nxt.append((ev + ev2, out2))
            self._tick(len(nxt))
            res = nxt
        return res

    def stmt(self, st):
        if isinstance(st, ast.If):
            t = const_truth(st.test)
            res = []
            if t is not False:
                res += [((('branch', st.test, True),) + ev, out) for ev, out in self.block(st.body)]
            if t is not True:
                res += [((('branch', st.test, False),) + ev, out) for ev, out in self.block(st.orelse)]
            return res
        if isinstance(st, (ast.While, ast.For)):
            return self.loop(st, 0)
        if isinstance(st, ast.Return):
            return [((('return', st),), 'return')]
        if isinstance(st, ast.Raise):
            return [((('raise', st),), 'raise')]
        if isinstance(st, ast.Break):
            return [((), 'break')]
        if isinstance(st, ast.Continue):
            return [((), 'continue')]
        if isinstance(st, ast.With):
            return self.block(st.body)
        if isinstance(st, (ast.Try, ast.Match)) or type(st).__name__ in ('TryStar', 'AsyncFor', 'AsyncWith'):
            raise AnalysisError(f"statement outside the path enumerator: {norm(st)[:60]}")
        return [((('stmt', st),), 'fall')]

    def loop(self, lp, k):
        res = []
        if isinstance(lp, ast.While):
            t = const_truth(lp.test)
            enter = (('branch', lp.test, True),)
            leave = (('branch', lp.test, False),)
        else:
            t = None
            enter = ()
            leave = (('exhaust', lp),)
        if t is not True:
            res += [(leave + ev, out) for ev, out in self.block(lp.orelse)]
        if t is not False:
            if k >= self.max_iter:
                res.append((enter + (('cut', lp),), 'cut'))
            else:
                for ev, out in self.block(lp.body):
                    pre = (('iter', lp, k),) + enter + ev
                    if out in ('fall', 'continue'):
                        for ev2, out2 in self.loop(lp, k + 1):
                            res.append((pre + ev2, out2))
                    elif out == 'break':
                        res.append((pre, 'fall'))
                    else:
                        res.append((pre, out))
                self._tick(len(res))
        return res


def known_atoms(test, value):
    """From `test` evaluating to `value`, the sub-expressions whose truth value is implied:
    yields (expr, truth).  or=False -> every operand False; and=True -> every operand True; not flips."""
    if isinstance(test, ast.UnaryOp) and isinstance(test.op, ast.Not):
        yield from known_atoms(test.operand, not value)
    elif isinstance(test, ast.BoolOp) and isinstance(test.op, ast.Or) and value is False:
        for v in test.values:
            yield from known_atoms(v, False)
    elif isinstance(test, ast.BoolOp) and isinstance(test.op, ast.And) and value is True:
        for v in test.values:
            yield from known_atoms(v, True)
    elif isinstance(test, ast.BoolOp) and len(test.values) == 1:
        yield from known_atoms(test.values[0], value)
    elif isinstance(test, ast.BoolOp):
        return
    else:
        yield test, value
