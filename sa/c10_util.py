"""Abstract interpreter used by the C10 rules.

It interprets *handler bodies of the RTLIR type checker* (and the small rtype /
rdt classes they call) over abstract inputs that a rule enumerates
exhaustively: Boolean explicitness flags x order types of symbolic widths.
Nothing of pymtl3 is imported or executed -- the interpreter walks the ast of
the analysed tree (through sa.loader, so the self-test overlay works).

Integers are `SymInt`s: a concrete value that steers comparisons (the order
type of the abstract point) plus a linear form over the point's symbols that
identifies *which* quantity a result is (e.g. the width of the left operand,
`upper - lower`, or "derived from a folded value").  Verdicts compare forms,
not sampled numbers.

Anything outside the supported Python subset raises AnalysisError (exit 2).
"""
import ast
import functools
import math
from collections import deque, ChainMap

from .astutil import norm
from .errors import AnalysisError
from .minieval import Raised, Returned


# ---------------------------------------------------------------------------
def _fkey(form):
    return None if form is None else tuple(sorted(form.items(), key=repr))


class SymInt:
    __slots__ = ('v', 'form')

    def __init__(s, v, form=None, sym=None):
        s.v = int(v)
        if sym is not None:
            form = {sym: 1}
        s.form = form

    @staticmethod
    def of(x):
        if isinstance(x, SymInt):
            return x
        if isinstance(x, bool):
            x = int(x)
        if isinstance(x, int):
            return SymInt(x, {1: x} if x else {})
        raise TypeError(f"not an integer: {x!r}")

    def is_const(s):
        return s.form is not None and set(s.form) <= {1}

    def derived_from_value(s):
        """True when the quantity was computed from a (folded) value through bit_length()"""
        return s.form is not None and any(isinstance(k, tuple) and k and k[0] == 'bits' for k in s.form)

    def _lin(s, o, sign):
        if isinstance(o, float):
            return s.v + sign * o
        o = SymInt.of(o)
        if s.form is None or o.form is None:
            f = None
        else:
            f = dict(s.form)
            for k, c in o.form.items():
                f[k] = f.get(k, 0) + sign * c
                if f[k] == 0:
                    del f[k]
        return SymInt(s.v + sign * o.v, f)

    def _nl(s, o, fn, swap=False):
        if isinstance(o, float):
            return fn(o, s.v) if swap else fn(s.v, o)
        o = SymInt.of(o)
        a, b = (o, s) if swap else (s, o)
        r = fn(a.v, b.v)
        if isinstance(r, float):
            return r
        if a.is_const() and b.is_const():
            return SymInt.of(r)
        return SymInt(r, None)

    def __add__(s, o): return s._lin(o, 1)
    def __radd__(s, o): return SymInt.of(o)._lin(s, 1)
    def __sub__(s, o): return s._lin(o, -1)
    def __rsub__(s, o): return SymInt.of(o)._lin(s, -1)

    def __mul__(s, o):
        if isinstance(o, float):
            return s.v * o
        o = SymInt.of(o)
        for a, b in ((s, o), (o, s)):
            if b.is_const() and a.form is not None:
                return SymInt(a.v * b.v, {k: c * b.v for k, c in a.form.items() if c * b.v})
        return SymInt(s.v * o.v, None)
    __rmul__ = __mul__

    def __floordiv__(s, o): return s._nl(o, lambda a, b: a // b)
    def __rfloordiv__(s, o): return s._nl(o, lambda a, b: a // b, True)
    def __truediv__(s, o): return s._nl(o, lambda a, b: a / b)
    def __rtruediv__(s, o): return s._nl(o, lambda a, b: a / b, True)
    def __mod__(s, o): return s._nl(o, lambda a, b: a % b)
    def __rmod__(s, o): return s._nl(o, lambda a, b: a % b, True)
    def __pow__(s, o): return s._nl(o, lambda a, b: a ** b)
    def __rpow__(s, o): return s._nl(o, lambda a, b: a ** b, True)
    def __lshift__(s, o): return s._nl(o, lambda a, b: a << b)
    def __rlshift__(s, o): return s._nl(o, lambda a, b: a << b, True)
    def __rshift__(s, o): return s._nl(o, lambda a, b: a >> b)
    def __rrshift__(s, o): return s._nl(o, lambda a, b: a >> b, True)
    def __and__(s, o): return s._nl(o, lambda a, b: a & b)
    __rand__ = __and__
    def __or__(s, o): return s._nl(o, lambda a, b: a | b)
    __ror__ = __or__
    def __xor__(s, o): return s._nl(o, lambda a, b: a ^ b)
    __rxor__ = __xor__
    def __neg__(s): return SymInt.of(0)._lin(s, -1)
    def __pos__(s): return s
    def __invert__(s): return SymInt(~s.v, None if not s.is_const() else ({1: ~s.v} if ~s.v else {}))
    def __abs__(s): return s if s.v >= 0 else -s

    @staticmethod
    def _val(o):
        if isinstance(o, SymInt):
            return o.v
        if isinstance(o, (int, float)):
            return o
        return None

    def __eq__(s, o):
        v = SymInt._val(o)
        return False if v is None else s.v == v

    def __ne__(s, o): return not s.__eq__(o)
    def __lt__(s, o): return s.v < SymInt._val(o)
    def __le__(s, o): return s.v <= SymInt._val(o)
    def __gt__(s, o): return s.v > SymInt._val(o)
    def __ge__(s, o): return s.v >= SymInt._val(o)
    def __hash__(s): return hash(s.v)
    def __int__(s): return s.v
    def __index__(s): return s.v
    def __float__(s): return float(s.v)
    def __bool__(s): return s.v != 0
    def __repr__(s): return f"SymInt({s.v}, {s.form})"

    def bit_length(s):
        return SymInt(s.v.bit_length(), {('bits', _fkey(s.form)): 1})


def form_of(x):
    """linear form of an int-like value (plain ints are constants)"""
    return SymInt.of(x).form


# ---------------------------------------------------------------------------
class ClsVal:
    def __init__(s, mod, node):
        s.mod, s.node, s.name = mod, node, node.name

    def __repr__(s):
        return f"<class {s.name}>"


class FuncVal:
    def __init__(s, mod, node, defcls=None):
        s.mod, s.node, s.defcls = mod, node, defcls

    def __repr__(s):
        return f"<function {s.node.name}>"


class Bound:
    def __init__(s, inst, func):
        s.inst, s.func = inst, func


class ModVal:
    def __init__(s, mod):
        s.mod = mod


class AInst:
    """abstract instance of a class of the analysed tree"""
    def __init__(s, cls):
        s.cls = cls
        s.attrs = {}

    def __repr__(s):
        return f"<{s.cls.name} {sorted(s.attrs)}>"


class Opaque:
    def __init__(s, tag):
        s.tag = tag

    def __repr__(s):
        return f"<opaque {s.tag}>"


class NativeModel:
    """base of python-side models handed to interpreted code (attributes are visible to it)"""


class ExcVal(NativeModel):
    """the value bound by `except X as e` (only e.args is modelled)"""
    def __init__(s, what):
        s.what = what
        s.args = ('<message>',)


class _CopyNS:
    pass


class Frame:
    def __init__(s, mod, locals_=None, defcls=None, selfobj=None):
        s.mod, s.locals, s.defcls, s.selfobj = mod, dict(locals_ or {}), defcls, selfobj
        s.exc = None


_EXC_NAMES = {'Exception', 'BaseException', 'AttributeError', 'TypeError', 'AssertionError', 'KeyError', 'IndexError',
              'ValueError', 'NameError', 'ZeroDivisionError', 'NotImplementedError', 'RuntimeError', 'OverflowError'}
_NATIVE_EXC = (KeyError, IndexError, ValueError, TypeError, ZeroDivisionError, AttributeError, OverflowError)
_NATIVE_TYPES = (int, float, str, list, tuple, dict, set, frozenset, deque, range, slice, type(None), bool, ChainMap, ast.AST)


class Interp:
    def __init__(s, repo, max_steps=6000000):
        s.repo = repo
        s.steps = 0
        s.max_steps = max_steps
        s._cls = {}
        s._mro = {}
        s._modvals = {}
        s.copy_ns = _CopyNS()
        s.copy_ns.copy = s._copy
        s.copy_ns.deepcopy = s._deepcopy
        s.native_modules = {'copy': s.copy_ns, 'math': math, 'ast': ast, 'collections': __import__('collections')}
        s.native_from = {('collections', 'deque'): deque, ('collections', 'ChainMap'): ChainMap, ('math', 'ceil'): math.ceil, ('math', 'log2'): math.log2,
                         ('math', 'log'): math.log, ('math', 'floor'): math.floor,
                         ('copy', 'copy'): s._copy, ('copy', 'deepcopy'): s._deepcopy,
                         ('functools', 'reduce'): functools.reduce}
        s.builtins = {
            'isinstance': s._isinstance, 'hasattr': s._hasattr, 'getattr': s._getattr3, 'setattr': s._setattr,
            'vars': s._vars, 'type': s._type, 'int': int, 'max': max, 'min': min, 'len': len, 'list': list,
            'tuple': tuple, 'range': range, 'enumerate': enumerate, 'zip': zip, 'abs': abs, 'str': str, 'set': set,
            'dict': dict, 'sum': sum, 'any': any, 'all': all, 'sorted': sorted, 'reversed': reversed, 'bool': s.truth,
            'print': lambda *a, **k: None, 'slice': slice, 'bin': lambda x: bin(int(x)), 'hex': lambda x: hex(int(x)),
            'True': True, 'False': False, 'None': None, 'float': float, 'object': object,
        }

    # -- classes ----------------------------------------------------------
    def clsval(s, mod, node):
        k = id(node)
        if k not in s._cls:
            s._cls[k] = ClsVal(mod, node)
        return s._cls[k]

    def mro(s, cls):
        k = id(cls.node)
        if k not in s._mro:
            s._mro[k] = [s.clsval(m, c) for m, c in s.repo.mro(cls.mod, cls.node)]
        return s._mro[k]

    def find_method(s, cls, name, after=None):
        started = after is None
        for c in s.mro(cls):
            if not started:
                if c is after:
                    started = True
                continue
            for st in c.mod._defs_in(c.node.body):
                if isinstance(st, ast.FunctionDef) and st.name == name:
                    return FuncVal(c.mod, st, c)
        return None

    def class_attr(s, cls, name):
        for c in s.mro(cls):
            for st in c.node.body:
                if isinstance(st, ast.Assign):
                    for t in st.targets:
                        if isinstance(t, ast.Name) and t.id == name:
                            return True, s.ev(Frame(c.mod), st.value)
        return False, None

    def get_class(s, rel, name):
        m = s.repo.mod(rel)
        return s.clsval(m, m.get_class(name))

    def module(s, rel):
        return ModVal(s.repo.mod(rel))

    # -- names ------------------------------------------------------------
    def mod_name(s, mod, name):
        r = s.repo.resolve(mod, name)
        if r is not None:
            m2, node = r
            if isinstance(node, ast.ClassDef):
                return s.clsval(m2, node)
            if isinstance(node, (ast.FunctionDef, ast.AsyncFunctionDef)):
                return FuncVal(m2, node, None)
            if isinstance(node, ast.Module):
                return ModVal(m2)
            return s.ev(Frame(m2), node)
        if name in mod.imports:
            dotted, orig = mod.imports[name]
            if orig is None and dotted in s.native_modules:
                return s.native_modules[dotted]
            if (dotted, orig) in s.native_from:
                return s.native_from[(dotted, orig)]
        if name in s.builtins:
            return s.builtins[name]
        if name in _EXC_NAMES:
            return Opaque('exc:' + name)
        raise AnalysisError(f"name `{name}` cannot be resolved in {mod.rel} (evaluating it would raise NameError)")

    def lookup(s, fr, name):
        if name in fr.locals:
            return fr.locals[name]
        return s.mod_name(fr.mod, name)

    # -- attribute access -------------------------------------------------
    def getattr(s, obj, name):
        if isinstance(obj, AInst):
            if name in obj.attrs:
                return obj.attrs[name]
            if name == '__class__':
                return obj.cls
            f = s.find_method(obj.cls, name)
            if f is not None:
                if any(norm(d) == 'property' for d in f.node.decorator_list):
                    return s.call_function(f, [obj], {})
                return Bound(obj, f)
            ok, v = s.class_attr(obj.cls, name)
            if ok:
                return v
            raise Raised('AttributeError')
        if isinstance(obj, ClsVal):
            if name == '__name__':
                return obj.name
            f = s.find_method(obj, name)
            if f is not None:
                return f
            ok, v = s.class_attr(obj, name)
            if ok:
                return v
            raise Raised('AttributeError')
        if isinstance(obj, ModVal):
            return s.mod_name(obj.mod, name)
        if isinstance(obj, SymInt):
            if name == 'bit_length':
                return obj.bit_length
            raise Raised('AttributeError')
        if isinstance(obj, bool):
            raise Raised('AttributeError')
        if isinstance(obj, int) and name == 'bit_length':
            return SymInt.of(obj).bit_length
        if isinstance(obj, (NativeModel, _CopyNS)) or obj is math or obj is ast or getattr(obj, '__name__', None) == 'collections':
            if hasattr(obj, name):
                return getattr(obj, name)
            raise Raised('AttributeError')
        if isinstance(obj, _NATIVE_TYPES) and not name.startswith('__'):
            if hasattr(obj, name):
                return getattr(obj, name)
            raise Raised('AttributeError')
        if isinstance(obj, Opaque):
            raise AnalysisError(f"attribute `{name}` of an opaque abstract value ({obj.tag})")
        raise AnalysisError(f"attribute `{name}` of unsupported value {type(obj).__name__}")

    def setattr(s, obj, name, val):
        if isinstance(obj, AInst):
            obj.attrs[name] = val
        else:
            raise AnalysisError(f"attribute store `{name}` on unsupported value {type(obj).__name__}")

    # -- builtins with abstract semantics -----------------------------------
    def _hasattr(s, obj, name):
        try:
            s.getattr(obj, name)
            return True
        except Raised as r:
            if r.what == 'AttributeError':
                return False
            raise

    def _getattr3(s, obj, name, *default):
        try:
            return s.getattr(obj, name)
        except Raised as r:
            if r.what == 'AttributeError' and default:
                return default[0]
            raise

    def _setattr(s, obj, name, val):
        s.setattr(obj, name, val)

    def _vars(s, obj):
        if isinstance(obj, AInst):
            return obj.attrs
        raise AnalysisError("vars() of a non-instance")

    def _type(s, obj):
        if isinstance(obj, AInst):
            return obj.cls
        if isinstance(obj, SymInt):
            return int
        if isinstance(obj, ClsVal):
            return type
        return type(obj)

    def _int(s, x=0):
        if isinstance(x, SymInt):
            return x
        if isinstance(x, AInst):
            for nm in ('__int__', '__index__'):
                f = s.find_method(x.cls, nm)
                if f is not None:
                    return s.call_function(f, [x], {})
            raise Raised('TypeError')
        if isinstance(x, (Opaque, ClsVal)):
            raise AnalysisError("int() of an abstract object")
        return int(x)

    def _isinstance(s, v, c):
        if isinstance(c, tuple):
            return any(s._isinstance(v, x) for x in c)
        if isinstance(c, ClsVal):
            return isinstance(v, AInst) and any(x is c for x in s.mro(v.cls))
        if isinstance(c, type):
            if isinstance(v, SymInt):
                return c in (int, object)
            if isinstance(v, (AInst, Opaque)):
                return c is object
            if isinstance(v, ClsVal):
                return c in (type, object)
            return isinstance(v, c)
        raise AnalysisError(f"isinstance against unsupported class value {c!r}")

    def _copy(s, v):
        if isinstance(v, AInst):
            n = AInst(v.cls)
            n.attrs = dict(v.attrs)
            return n
        if isinstance(v, (list, dict, set)):
            return type(v)(v)
        return v

    def _deepcopy(s, v, memo=None):
        memo = {} if memo is None else memo
        if id(v) in memo:
            return memo[id(v)]
        if isinstance(v, AInst):
            n = AInst(v.cls)
            memo[id(v)] = n
            n.attrs = {k: s._deepcopy(x, memo) for k, x in v.attrs.items()}
            return n
        if isinstance(v, list):
            return [s._deepcopy(x, memo) for x in v]
        if isinstance(v, tuple):
            return tuple(s._deepcopy(x, memo) for x in v)
        if isinstance(v, dict):
            return {k: s._deepcopy(x, memo) for k, x in v.items()}
        return v

    def truth(s, v):
        if isinstance(v, AInst):
            if s.find_method(v.cls, '__bool__') or s.find_method(v.cls, '__len__'):
                raise AnalysisError(f"truth value of {v.cls.name} with __bool__/__len__")
            return True
        if isinstance(v, (ClsVal, FuncVal, Bound, ModVal, Opaque, NativeModel)):
            return True
        return bool(v)

    # -- calls --------------------------------------------------------------
    def call(s, fn, args=(), kwargs=None):
        kwargs = kwargs or {}
        args = list(args)
        if isinstance(fn, Bound):
            return s.call_function(fn.func, [fn.inst] + args, kwargs)
        if isinstance(fn, FuncVal):
            return s.call_function(fn, args, kwargs)
        if isinstance(fn, ClsVal):
            inst = AInst(fn)
            init = s.find_method(fn, '__init__')
            if init is not None:
                s.call_function(init, [inst] + args, kwargs)
            elif args or kwargs:
                raise Raised('TypeError')
            return inst
        if isinstance(fn, AInst):
            f = s.find_method(fn.cls, '__call__')
            if f is None:
                raise Raised('TypeError')
            return s.call_function(f, [fn] + args, kwargs)
        if isinstance(fn, Opaque):
            raise AnalysisError(f"call of an opaque value ({fn.tag})")
        if fn is int:
            fn = s._int
        if callable(fn):
            try:
                return fn(*args, **kwargs)
            except (Raised, Returned, AnalysisError):
                raise
            except AssertionError:
                raise Raised('AssertionError')
            except _NATIVE_EXC as e:
                raise Raised(type(e).__name__)
        raise Raised('TypeError')

    def call_function(s, fv, args, kwargs):
        node = fv.node
        a = node.args
        if a.posonlyargs:
            raise AnalysisError(f"positional-only parameters in {node.name}")
        params = [x.arg for x in a.args]
        loc = {}
        if len(args) > len(params) and a.vararg is None:
            raise Raised('TypeError')
        for p, v in zip(params, args):
            loc[p] = v
        if a.vararg is not None:
            loc[a.vararg.arg] = tuple(args[len(params):])
        for k, v in kwargs.items():
            if k in loc:
                raise Raised('TypeError')
            if k in params or k in [x.arg for x in a.kwonlyargs]:
                loc[k] = v
            else:
                raise Raised('TypeError')
        fr = Frame(fv.mod, loc, fv.defcls, args[0] if args and fv.defcls is not None else None)
        nd = len(a.defaults)
        for i, p in enumerate(params):
            if p not in loc:
                j = i - (len(params) - nd)
                if j < 0:
                    raise Raised('TypeError')
                loc[p] = s.ev(Frame(fv.mod), a.defaults[j])
        for p, d in zip(a.kwonlyargs, a.kw_defaults):
            if p.arg not in loc:
                if d is None:
                    raise Raised('TypeError')
                loc[p.arg] = s.ev(Frame(fv.mod), d)
        fr.locals = loc
        try:
            s.block(fr, node.body)
        except Returned as r:
            return r.value
        return None

    # -- operators ----------------------------------------------------------
    def eq(s, a, b):
        if isinstance(a, (tuple, list)) and type(a) is type(b):
            # element-wise, so that interpreted __eq__ of abstract elements is used
            return len(a) == len(b) and all(s.truth(s.eq(x, y)) for x, y in zip(a, b))
        if isinstance(a, AInst):
            f = s.find_method(a.cls, '__eq__')
            if f is not None:
                return s.call_function(f, [a, b], {})
            if isinstance(b, AInst):
                g = s.find_method(b.cls, '__eq__')
                if g is not None:
                    return s.call_function(g, [b, a], {})
            return a is b
        if isinstance(b, AInst):
            g = s.find_method(b.cls, '__eq__')
            if g is not None:
                return s.call_function(g, [b, a], {})
            return False
        if isinstance(a, (ClsVal, Opaque, FuncVal, ModVal)) or isinstance(b, (ClsVal, Opaque, FuncVal, ModVal)):
            return a is b
        return a == b

    def ne(s, a, b):
        if isinstance(a, AInst):
            f = s.find_method(a.cls, '__ne__')
            if f is not None:
                return s.call_function(f, [a, b], {})
        return not s.truth(s.eq(a, b))

    def compare(s, op, a, b):
        if isinstance(op, ast.Eq):
            return s.eq(a, b)
        if isinstance(op, ast.NotEq):
            return s.ne(a, b)
        if isinstance(op, ast.Is):
            return a is b or (isinstance(a, SymInt) and isinstance(b, SymInt) and a.v == b.v and False)
        if isinstance(op, ast.IsNot):
            return a is not b
        if isinstance(op, (ast.In, ast.NotIn)):
            try:
                r = a in b
            except TypeError:
                raise Raised('TypeError')
            return r if isinstance(op, ast.In) else not r
        if isinstance(a, (AInst, ClsVal, Opaque)) or isinstance(b, (AInst, ClsVal, Opaque)):
            raise AnalysisError("ordering comparison of abstract objects")
        try:
            if isinstance(op, ast.Lt):
                return a < b
            if isinstance(op, ast.LtE):
                return a <= b
            if isinstance(op, ast.Gt):
                return a > b
            if isinstance(op, ast.GtE):
                return a >= b
        except TypeError:
            raise Raised('TypeError')
        raise AnalysisError("comparison operator outside the interpreted subset")

    _BIN = {ast.Add: lambda a, b: a + b, ast.Sub: lambda a, b: a - b, ast.Mult: lambda a, b: a * b,
            ast.Div: lambda a, b: a / b, ast.FloorDiv: lambda a, b: a // b, ast.Mod: lambda a, b: a % b,
            ast.Pow: lambda a, b: a ** b, ast.LShift: lambda a, b: a << b, ast.RShift: lambda a, b: a >> b,
            ast.BitAnd: lambda a, b: a & b, ast.BitOr: lambda a, b: a | b, ast.BitXor: lambda a, b: a ^ b}

    def binop(s, op, a, b):
        f = s._BIN.get(type(op))
        if f is None:
            raise AnalysisError(f"binary operator {type(op).__name__} outside the interpreted subset")
        ok = (SymInt, int, float, str, list, tuple)
        if not isinstance(a, ok) or not isinstance(b, ok):
            raise AnalysisError(f"binary operator on abstract objects ({type(a).__name__}, {type(b).__name__})")
        if isinstance(op, ast.Pow):
            bv = b.v if isinstance(b, SymInt) else b
            if isinstance(bv, int) and abs(bv) > 4096:
                raise AnalysisError("power too large to fold")
        try:
            return f(a, b)
        except _NATIVE_EXC as e:
            raise Raised(type(e).__name__)

    # -- expressions --------------------------------------------------------
    def ev(s, fr, e):
        s.steps += 1
        if s.steps > s.max_steps:
            raise AnalysisError("abstract interpretation exceeded its step budget")
        m = getattr(s, 'ev_' + type(e).__name__, None)
        if m is None:
            raise AnalysisError(f"expression outside the interpreted subset: {type(e).__name__}: {norm(e)[:80]}")
        return m(fr, e)

    def ev_Constant(s, fr, e):
        return e.value

    def ev_Name(s, fr, e):
        return s.lookup(fr, e.id)

    def ev_Attribute(s, fr, e):
        return s.getattr(s.ev(fr, e.value), e.attr)

    def ev_Tuple(s, fr, e):
        return tuple(s._elts(fr, e.elts))

    def ev_List(s, fr, e):
        return list(s._elts(fr, e.elts))

    def ev_Set(s, fr, e):
        return set(s._elts(fr, e.elts))

    def _elts(s, fr, elts):
        out = []
        for x in elts:
            if isinstance(x, ast.Starred):
                out.extend(s.ev(fr, x.value))
            else:
                out.append(s.ev(fr, x))
        return out

    def ev_Dict(s, fr, e):
        d = {}
        for k, v in zip(e.keys, e.values):
            if k is None:
                d.update(s.ev(fr, v))
            else:
                d[s.ev(fr, k)] = s.ev(fr, v)
        return d

    def ev_JoinedStr(s, fr, e):
        # message strings: evaluated when they are built from plain strings / integers only
        txt = ''
        for part in e.values:
            if isinstance(part, ast.Constant):
                txt += str(part.value)
                continue
            try:
                v = s.ev(fr, part.value)
            except (AnalysisError, Raised):
                return '<fstr>'
            if isinstance(v, SymInt):
                v = v.v
            if not isinstance(v, (str, int)) or part.format_spec is not None or part.conversion != -1:
                return '<fstr>'
            txt += str(v)
        return txt

    def ev_Compare(s, fr, e):
        left = s.ev(fr, e.left)
        for op, rt in zip(e.ops, e.comparators):
            right = s.ev(fr, rt)
            if not s.truth(s.compare(op, left, right)):
                return False
            left = right
        return True

    def ev_BoolOp(s, fr, e):
        v = None
        for x in e.values:
            v = s.ev(fr, x)
            t = s.truth(v)
            if isinstance(e.op, ast.And) and not t:
                return v
            if isinstance(e.op, ast.Or) and t:
                return v
        return v

    def ev_UnaryOp(s, fr, e):
        v = s.ev(fr, e.operand)
        if isinstance(e.op, ast.Not):
            return not s.truth(v)
        if not isinstance(v, (SymInt, int, float)):
            raise AnalysisError("unary arithmetic on an abstract object")
        if isinstance(e.op, ast.USub):
            return -v
        if isinstance(e.op, ast.UAdd):
            return +v
        return ~v

    def ev_BinOp(s, fr, e):
        return s.binop(e.op, s.ev(fr, e.left), s.ev(fr, e.right))

    def ev_IfExp(s, fr, e):
        return s.ev(fr, e.body) if s.truth(s.ev(fr, e.test)) else s.ev(fr, e.orelse)

    def ev_Subscript(s, fr, e):
        base = s.ev(fr, e.value)
        idx = s.ev(fr, e.slice)
        if isinstance(base, (AInst, Opaque, ClsVal)):
            raise AnalysisError("subscript of an abstract object")
        try:
            return base[idx]
        except _NATIVE_EXC as ex:
            raise Raised(type(ex).__name__)

    def ev_Slice(s, fr, e):
        return slice(None if e.lower is None else s.ev(fr, e.lower), None if e.upper is None else s.ev(fr, e.upper),
                     None if e.step is None else s.ev(fr, e.step))

    def _comp(s, fr, gens, emit):
        if not gens:
            emit()
            return
        g = gens[0]
        for item in s.ev(fr, g.iter):
            s.assign(fr, g.target, item)
            if all(s.truth(s.ev(fr, c)) for c in g.ifs):
                s._comp(fr, gens[1:], emit)

    def ev_ListComp(s, fr, e):
        out = []
        s._comp(fr, e.generators, lambda: out.append(s.ev(fr, e.elt)))
        return out
    ev_GeneratorExp = ev_ListComp

    def ev_SetComp(s, fr, e):
        return set(s.ev_ListComp(fr, e))

    def ev_DictComp(s, fr, e):
        out = {}
        s._comp(fr, e.generators, lambda: out.__setitem__(s.ev(fr, e.key), s.ev(fr, e.value)))
        return out

    def ev_Lambda(s, fr, e):
        a = e.args
        if a.vararg or a.kwarg or a.kwonlyargs or a.defaults or a.posonlyargs:
            raise AnalysisError("lambda with defaults / star arguments outside the interpreted subset")
        names = [x.arg for x in a.args]

        def fn(*args):
            if len(args) != len(names):
                raise Raised('TypeError')
            inner = Frame(fr.mod, dict(fr.locals), fr.defcls, fr.selfobj)
            inner.locals.update(zip(names, args))
            return s.ev(inner, e.body)
        return fn

    def ev_Call(s, fr, e):
        # super()
        if isinstance(e.func, ast.Name) and e.func.id == 'super' and not e.args:
            if fr.defcls is None or fr.selfobj is None:
                raise AnalysisError("super() outside a method")
            return ('<super>', fr.selfobj, fr.defcls)
        if isinstance(e.func, ast.Name) and e.func.id == 'eval' and 'eval' not in fr.locals:
            return s._eval(fr, e)
        if isinstance(e.func, ast.Attribute):
            base = s.ev(fr, e.func.value)
            if isinstance(base, tuple) and len(base) == 3 and base[0] == '<super>':
                _, inst, after = base
                cls = inst.cls if isinstance(inst, AInst) else None
                if cls is None:
                    raise AnalysisError("super() on a non-instance")
                f = s.find_method(cls, e.func.attr, after=after)
                if f is None:
                    if e.func.attr == '__init__':
                        return None
                    raise Raised('AttributeError')
                fn = Bound(inst, f)
            else:
                fn = s.getattr(base, e.func.attr)
        else:
            fn = s.ev(fr, e.func)
        args = s._elts(fr, e.args)
        kwargs = {}
        for k in e.keywords:
            if k.arg is None:
                raise AnalysisError("**kwargs call outside the interpreted subset")
            kwargs[k.arg] = s.ev(fr, k.value)
        return s.call(fn, args, kwargs)

    def _eval(s, fr, e):
        if len(e.args) != 1:
            raise AnalysisError("eval with an explicit namespace")
        a = e.args[0]
        if isinstance(a, ast.JoinedStr):
            txt = ''
            for part in a.values:
                if isinstance(part, ast.Constant):
                    txt += str(part.value)
                else:
                    v = s.ev(fr, part.value)
                    if isinstance(v, SymInt):
                        v = v.v
                    if not isinstance(v, (str, int)):
                        raise AnalysisError("eval of a string built from an abstract object")
                    txt += str(v)
        else:
            txt = s.ev(fr, a)
            if not isinstance(txt, str) or txt == '<fstr>':
                raise AnalysisError("eval of a non-constant string")
        try:
            tree = ast.parse(txt, mode='eval')
        except SyntaxError:
            raise Raised('SyntaxError')
        return s.ev(fr, tree.body)

    # -- statements ---------------------------------------------------------
    def assign(s, fr, target, val):
        if isinstance(target, ast.Name):
            fr.locals[target.id] = val
        elif isinstance(target, (ast.Tuple, ast.List)):
            try:
                vals = list(val)
            except TypeError:
                raise Raised('TypeError')
            if len(vals) != len(target.elts):
                raise Raised('ValueError')
            for t, v in zip(target.elts, vals):
                s.assign(fr, t, v)
        elif isinstance(target, ast.Attribute):
            s.setattr(s.ev(fr, target.value), target.attr, val)
        elif isinstance(target, ast.Subscript):
            base = s.ev(fr, target.value)
            if not isinstance(base, (dict, list)):
                raise AnalysisError("subscript store on an abstract object")
            try:
                base[s.ev(fr, target.slice)] = val
            except _NATIVE_EXC as ex:
                raise Raised(type(ex).__name__)
        else:
            raise AnalysisError(f"assignment target outside the interpreted subset: {norm(target)}")

    def _exc_name(s, e):
        if isinstance(e, ast.Call):
            e = e.func
        if isinstance(e, ast.Attribute):
            return e.attr
        if isinstance(e, ast.Name):
            return e.id
        raise AnalysisError(f"raise of a computed exception: {norm(e)}")

    def _handler_matches(s, h, what):
        if h.type is None:
            return True
        types = h.type.elts if isinstance(h.type, ast.Tuple) else [h.type]
        for t in types:
            n = s._exc_name(t)
            if n in ('Exception', 'BaseException') or n == what:
                return True
        return False

    def block(s, fr, stmts):
        for st in stmts:
            s.stmt(fr, st)

    def stmt(s, fr, st):
        s.steps += 1
        if s.steps > s.max_steps:
            raise AnalysisError("abstract interpretation exceeded its step budget")
        if isinstance(st, ast.Expr):
            if isinstance(st.value, ast.Constant):
                return
            s.ev(fr, st.value)
        elif isinstance(st, ast.Assign):
            v = s.ev(fr, st.value)
            for t in st.targets:
                s.assign(fr, t, v)
        elif isinstance(st, ast.AugAssign):
            load = ast.copy_location(_as_load(st.target), st.target)
            cur = s.ev(fr, load)
            s.assign(fr, st.target, s.binop(st.op, cur, s.ev(fr, st.value)))
        elif isinstance(st, ast.AnnAssign):
            if st.value is not None:
                s.assign(fr, st.target, s.ev(fr, st.value))
        elif isinstance(st, ast.If):
            s.block(fr, st.body if s.truth(s.ev(fr, st.test)) else st.orelse)
        elif isinstance(st, ast.For):
            broke = False
            it = s.ev(fr, st.iter)
            if isinstance(it, (AInst, Opaque, SymInt)):
                raise AnalysisError("iteration over an abstract object")
            for item in list(it):
                s.assign(fr, st.target, item)
                try:
                    s.block(fr, st.body)
                except _Break:
                    broke = True
                    break
                except _Continue:
                    continue
            if not broke:
                s.block(fr, st.orelse)
        elif isinstance(st, ast.While):
            n = 0
            while s.truth(s.ev(fr, st.test)):
                n += 1
                if n > 10000:
                    raise AnalysisError("while loop does not terminate in the abstract run")
                try:
                    s.block(fr, st.body)
                except _Break:
                    break
                except _Continue:
                    continue
        elif isinstance(st, ast.Break):
            raise _Break()
        elif isinstance(st, ast.Continue):
            raise _Continue()
        elif isinstance(st, ast.Return):
            raise Returned(None if st.value is None else s.ev(fr, st.value))
        elif isinstance(st, ast.Raise):
            if st.exc is None:
                if fr.exc is None:
                    raise AnalysisError("bare raise outside a handler")
                raise fr.exc
            r = Raised(s._exc_name(st.exc))
            r.line = st.lineno
            raise r
        elif isinstance(st, ast.Assert):
            if not s.truth(s.ev(fr, st.test)):
                raise Raised('AssertionError')
        elif isinstance(st, ast.Pass):
            pass
        elif isinstance(st, ast.Delete):
            for t in st.targets:
                if isinstance(t, ast.Subscript):
                    try:
                        del s.ev(fr, t.value)[s.ev(fr, t.slice)]
                    except _NATIVE_EXC as ex:
                        raise Raised(type(ex).__name__)
                elif isinstance(t, ast.Name):
                    fr.locals.pop(t.id, None)
                else:
                    raise AnalysisError("del outside the interpreted subset")
        elif isinstance(st, ast.Try):
            try:
                try:
                    s.block(fr, st.body)
                except Raised as r:
                    for h in st.handlers:
                        if s._handler_matches(h, r.what):
                            saved = fr.exc
                            fr.exc = r
                            if h.name:
                                fr.locals[h.name] = ExcVal(r.what)
                            try:
                                s.block(fr, h.body)
                            finally:
                                fr.exc = saved
                            break
                    else:
                        raise
                else:
                    s.block(fr, st.orelse)
            finally:
                if st.finalbody:
                    s.block(fr, st.finalbody)
        elif isinstance(st, ast.With):
            s._with(fr, st)
        elif isinstance(st, (ast.FunctionDef, ast.ClassDef, ast.Import, ast.ImportFrom, ast.Global, ast.Nonlocal)):
            raise AnalysisError(f"statement outside the interpreted subset: {type(st).__name__}")
        else:
            raise AnalysisError(f"statement outside the interpreted subset: {norm(st)[:80]}")

    def _with(s, fr, st):
        if len(st.items) != 1 or st.items[0].optional_vars is not None or not isinstance(st.items[0].context_expr, ast.Call):
            raise AnalysisError("with-statement outside the interpreted subset")
        c = st.items[0].context_expr
        fn = s.ev(fr, c.func) if not isinstance(c.func, ast.Attribute) else s.getattr(s.ev(fr, c.func.value), c.func.attr)
        if not isinstance(fn, Bound) or not any(norm(d).split('.')[-1] == 'contextmanager' for d in fn.func.node.decorator_list):
            raise AnalysisError("with-statement on something that is not an @contextmanager method")
        node = fn.func.node
        ys = [i for i, x in enumerate(node.body) if isinstance(x, ast.Expr) and isinstance(x.value, ast.Yield)]
        if len(ys) != 1:
            raise AnalysisError("@contextmanager body is not `setup; yield; teardown`")
        args = [fn.inst] + s._elts(fr, c.args)
        params = [x.arg for x in node.args.args]
        if len(args) != len(params):
            raise Raised('TypeError')
        inner = Frame(fn.func.mod, dict(zip(params, args)), fn.func.defcls, fn.inst)
        s.block(inner, node.body[:ys[0]])
        s.block(fr, st.body)
        s.block(inner, node.body[ys[0] + 1:])


class _Break(Exception):
    pass


class _Continue(Exception):
    pass


def _as_load(t):
    import copy
    n = copy.deepcopy(t)
    n.ctx = ast.Load()
    return n
