"""Abstract evaluation of small *extracted* statement blocks over abstract objects (used by rules/c08.py).

This is not an interpreter for pymtl3: a rule extracts one loop / one block of the function under
analysis and evaluates it on an exhaustively enumerated family of *abstract* objects (AObj: a name,
isinstance tags, a few attributes and nullary/unary methods with fixed answers) -- e.g. "a net member that
is / is not a top-level signal", "a signal whose ancestor is marked propagatable".  The vocabulary is
the structured subset below (assignments, if/for/while/try, containers, comparisons, Boolean
connectives, method calls on abstract objects); anything else raises AnalysisError (exit 2), never a
silent pass.  Exceptions the evaluated block would raise are reified as `Raised`.
"""
import ast

from .astutil import norm
from .errors import AnalysisError


class Raised(Exception):
    """the evaluated block raises `what` (name of the exception class)"""
    def __init__(self, what, detail=''):
        Exception.__init__(self, what, detail)
        self.what, self.detail = what, detail

    def __str__(self):
        return f"{self.what}{': ' + self.detail if self.detail else ''}"


class _Break(Exception):
    pass


class _Continue(Exception):
    pass


class _Return(Exception):
    def __init__(self, value):
        self.value = value


class AObj:
    """abstract object; identity semantics (hash / == by identity)"""
    def __init__(self, name, tags=(), attrs=None, methods=None, settable=False, items=False, absent=None):
        # absent: None -> any unknown attribute/method raises AttributeError in the evaluated code (the object is
        # modelled completely); a collection -> exactly these names are known not to exist (AttributeError), any
        # other unknown name is a question the abstraction cannot answer -> AnalysisError
        self.absent = None if absent is None else set(absent)
        self.name = name
        self.tags = set(tags)
        self.attrs = dict(attrs or {})
        self.methods = dict(methods or {})
        self.settable = settable      # setattr / attribute store allowed
        self.items = {} if items else None   # item store allowed

    def __repr__(self):
        return self.name

    def missing(self, what):
        if self.absent is None or what in self.absent:
            return Raised('AttributeError', f"{self.name} has no attribute {what}")
        return AnalysisError(f"abstract object {self.name} is asked for `{what}`, which is not among the attributes the "
                             f"abstract domain enumerates")


class ASet:
    """insertion-ordered set (the rule chooses / enumerates the iteration order explicitly)"""
    def __init__(self, items=()):
        self.items = []
        for x in items:
            self.add(x)

    def add(self, x):
        if not self.__contains__(x):
            self.items.append(x)

    def __contains__(self, x):
        return any(y is x or (not isinstance(y, AObj) and not isinstance(x, AObj) and y == x) for y in self.items)

    def remove(self, x):
        if x not in self:
            raise Raised('KeyError', repr(x))
        self.items = [y for y in self.items if y is not x and (isinstance(y, AObj) or y != x)]

    def discard(self, x):
        if x in self:
            self.remove(x)

    def update(self, other):
        for x in list(other):
            self.add(x)

    def copy(self):
        return ASet(self.items)

    def __iter__(self):
        return iter(list(self.items))

    def __len__(self):
        return len(self.items)

    def __repr__(self):
        return '{' + ', '.join(repr(x) for x in self.items) + '}'


class ClassRef:
    def __init__(self, name):
        self.name = name

    def __repr__(self):
        return f"<class {self.name}>"


_CMP = {ast.Lt: lambda a, b: a < b, ast.LtE: lambda a, b: a <= b, ast.Gt: lambda a, b: a > b,
        ast.GtE: lambda a, b: a >= b}
_ARITH = {ast.Add: lambda a, b: a + b, ast.Sub: lambda a, b: a - b, ast.Mult: lambda a, b: a * b,
          ast.FloorDiv: lambda a, b: a // b, ast.Mod: lambda a, b: a % b, ast.LShift: lambda a, b: a << b,
          ast.RShift: lambda a, b: a >> b, ast.BitAnd: lambda a, b: a & b}


def _same(a, b):
    if isinstance(a, AObj) or isinstance(b, AObj):
        return a is b
    return a == b


class Interp:
    """env: name -> value;  classes: class name -> predicate(value) used by isinstance;
    funcs: extra free functions name -> python callable."""
    def __init__(self, env, classes=None, funcs=None, max_steps=4000):
        self.env = dict(env)
        self.classes = dict(classes or {})
        self.funcs = dict(funcs or {})
        self.steps = 0
        self.max_steps = max_steps
        self._exc = []

    # ------------------------------------------------------------------ expressions
    def ev(self, e):
        self.steps += 1
        m = getattr(self, 'ev_' + type(e).__name__, None)
        if m is None:
            raise AnalysisError(f"expression outside the abstract domain: {type(e).__name__}: {norm(e)[:80]}")
        return m(e)

    def ev_Constant(self, e):
        return e.value

    def ev_Name(self, e):
        if e.id in self.env:
            return self.env[e.id]
        if e.id in self.classes:
            return ClassRef(e.id)
        if e.id in ('list', 'int', 'dict', 'tuple', 'str'):
            return {'list': list, 'int': int, 'dict': dict, 'tuple': tuple, 'str': str}[e.id]
        raise AnalysisError(f"unbound name in abstract evaluation: {e.id}")

    def ev_Attribute(self, e):
        base = self.ev(e.value)
        if isinstance(base, AObj):
            if e.attr in base.attrs:
                return base.attrs[e.attr]
            if e.attr in base.methods:
                return ('bound', base, e.attr)
            raise base.missing(e.attr)
        if base is None:
            raise Raised('AttributeError', f"None has no attribute {e.attr}")
        if e.attr == '__class__' and isinstance(base, (list, int, str, tuple, dict)):
            return type(base)
        raise AnalysisError(f"attribute outside the abstract domain: {norm(e)}")

    def ev_Tuple(self, e):
        return tuple(self.ev(x) for x in e.elts)

    def ev_List(self, e):
        return [self.ev(x) for x in e.elts]

    def ev_Set(self, e):
        return ASet(self.ev(x) for x in e.elts)

    def ev_Dict(self, e):
        if any(k is None for k in e.keys):
            raise AnalysisError("dict unpacking outside the abstract domain")
        return {self.ev(k): self.ev(v) for k, v in zip(e.keys, e.values)}

    def ev_IfExp(self, e):
        return self.ev(e.body) if self.truth(self.ev(e.test)) else self.ev(e.orelse)

    def ev_BoolOp(self, e):
        v = None
        for x in e.values:
            v = self.ev(x)
            t = self.truth(v)
            if isinstance(e.op, ast.And) and not t:
                return v
            if isinstance(e.op, ast.Or) and t:
                return v
        return v

    def ev_UnaryOp(self, e):
        v = self.ev(e.operand)
        if isinstance(e.op, ast.Not):
            return not self.truth(v)
        if isinstance(e.op, ast.USub) and isinstance(v, int):
            return -v
        raise AnalysisError(f"unary operator outside the abstract domain: {norm(e)}")

    def ev_BinOp(self, e):
        a, b = self.ev(e.left), self.ev(e.right)
        if isinstance(e.op, ast.Add) and isinstance(a, list) and isinstance(b, list):
            return a + b
        if isinstance(e.op, ast.Add) and isinstance(a, tuple) and isinstance(b, tuple):
            return a + b
        if isinstance(e.op, ast.Add) and isinstance(a, str) and isinstance(b, str):
            return a + b
        if isinstance(e.op, ast.BitOr) and isinstance(a, ASet) and isinstance(b, ASet):
            r = a.copy()
            r.update(b)
            return r
        if isinstance(e.op, ast.Sub) and isinstance(a, ASet) and isinstance(b, ASet):
            return ASet(x for x in a if x not in b)
        f = _ARITH.get(type(e.op))
        if f is not None and isinstance(a, int) and isinstance(b, int) and not isinstance(a, bool):
            return f(a, b)
        raise AnalysisError(f"binary operator outside the abstract domain: {norm(e)}")

    def truth(self, v):
        if isinstance(v, AObj):
            return True
        if isinstance(v, ASet):
            return len(v) > 0
        if v is None or isinstance(v, (bool, int, str, list, tuple, dict)):
            return bool(v)
        raise AnalysisError(f"truth value outside the abstract domain: {v!r}")

    def contains(self, container, x):
        if isinstance(container, ASet):
            return x in container
        if isinstance(container, dict):
            return x in container
        if isinstance(container, (list, tuple)):
            return any(_same(y, x) for y in container)
        if isinstance(container, str) and isinstance(x, str):
            return x in container
        raise AnalysisError(f"membership test on a value outside the abstract domain: {container!r}")

    def ev_Compare(self, e):
        left = self.ev(e.left)
        for op, rt in zip(e.ops, e.comparators):
            right = self.ev(rt)
            if isinstance(op, ast.Is):
                ok = left is right
            elif isinstance(op, ast.IsNot):
                ok = left is not right
            elif isinstance(op, ast.In):
                ok = self.contains(right, left)
            elif isinstance(op, ast.NotIn):
                ok = not self.contains(right, left)
            elif isinstance(op, ast.Eq):
                ok = _same(left, right)
            elif isinstance(op, ast.NotEq):
                ok = not _same(left, right)
            elif type(op) in _CMP and isinstance(left, int) and isinstance(right, int):
                ok = _CMP[type(op)](left, right)
            else:
                raise AnalysisError(f"comparison outside the abstract domain: {norm(e)}")
            if not ok:
                return False
            left = right
        return True

    def ev_Subscript(self, e):
        base = self.ev(e.value)
        if isinstance(e.slice, ast.Slice):
            if not isinstance(base, (list, tuple, str)) or e.slice.step is not None:
                raise AnalysisError(f"slice outside the abstract domain: {norm(e)}")
            lo = None if e.slice.lower is None else self.ev(e.slice.lower)
            hi = None if e.slice.upper is None else self.ev(e.slice.upper)
            return base[lo:hi]
        idx = self.ev(e.slice)
        return self.getitem(base, idx, e)

    def getitem(self, base, idx, e=None):
        if isinstance(base, DDict):
            return base[idx]
        if isinstance(base, dict):
            if idx not in base:
                raise Raised('KeyError', repr(idx))
            return base[idx]
        if isinstance(base, (list, tuple, str)):
            if not isinstance(idx, int) or isinstance(idx, bool):
                raise Raised('TypeError', f"index {idx!r}")
            if not -len(base) <= idx < len(base):
                raise Raised('IndexError', repr(idx))
            return base[idx]
        if isinstance(base, AObj) and base.items is not None:
            if idx not in base.items:
                raise Raised('KeyError', repr(idx))
            return base.items[idx]
        if isinstance(base, AObj):
            raise Raised('TypeError', f"{base.name} is not subscriptable")
        raise AnalysisError(f"subscript outside the abstract domain: {norm(e) if e is not None else base!r}")

    def _comp(self, gens, i, emit):
        if i == len(gens):
            emit()
            return
        g = gens[i]
        if g.is_async:
            raise AnalysisError("async comprehension")
        for item in self.iterate(self.ev(g.iter)):
            self.assign(g.target, item)
            if all(self.truth(self.ev(c)) for c in g.ifs):
                self._comp(gens, i + 1, emit)

    def ev_ListComp(self, e):
        out = []
        self._comp(e.generators, 0, lambda: out.append(self.ev(e.elt)))
        return out

    ev_GeneratorExp = ev_ListComp

    def ev_SetComp(self, e):
        return ASet(self.ev_ListComp(e))

    def ev_JoinedStr(self, e):
        out = ''
        for v in e.values:
            if isinstance(v, ast.Constant):
                out += str(v.value)
            else:
                x = self.ev(v.value)
                out += x if isinstance(x, str) and v.conversion != 114 else (str(x) if isinstance(x, int) else repr(x))
        return out

    def ev_Call(self, e):
        if any(isinstance(a, ast.Starred) for a in e.args) or any(k.arg is None for k in e.keywords):
            raise AnalysisError(f"star arguments outside the abstract domain: {norm(e)[:80]}")
        f = e.func
        if isinstance(f, ast.Name) and f.id not in self.env:
            return self.call_free(f.id, e)
        if isinstance(f, ast.Attribute):
            recv = self.ev(f.value)
            args = [self.ev(a) for a in e.args]
            kw = {k.arg: self.ev(k.value) for k in e.keywords}
            return self.call_method(recv, f.attr, args, kw, e)
        callee = self.ev(f)
        args = [self.ev(a) for a in e.args]
        if isinstance(callee, AObj) and '__call__' in callee.methods:
            return callee.methods['__call__'](*args)
        if isinstance(callee, tuple) and len(callee) == 3 and callee[0] == 'bound':
            return callee[1].methods[callee[2]](*args)
        if callable(callee):
            return callee(*args)
        raise AnalysisError(f"call outside the abstract domain: {norm(e)[:80]}")

    def isinstance_(self, v, cls):
        if isinstance(cls, tuple):
            return any(self.isinstance_(v, c) for c in cls)
        if isinstance(cls, ClassRef):
            return bool(self.classes[cls.name](v))
        if cls in (int, list, tuple, str, dict):
            return isinstance(v, cls) and not (cls is int and isinstance(v, bool))
        raise AnalysisError(f"isinstance on a type outside the abstract domain: {cls!r}")

    def call_free(self, name, e):
        if name == 'isinstance' and len(e.args) == 2:
            v = self.ev(e.args[0])
            c = e.args[1]

            def cls_of(c):
                if isinstance(c, ast.Tuple):
                    return tuple(cls_of(x) for x in c.elts)
                if isinstance(c, ast.Name) and c.id in self.classes:
                    return ClassRef(c.id)
                if isinstance(c, ast.Name) and c.id in ('int', 'list', 'tuple', 'str', 'dict'):
                    return {'int': int, 'list': list, 'tuple': tuple, 'str': str, 'dict': dict}[c.id]
                raise AnalysisError(f"isinstance on a type outside the abstract domain: {norm(c)}")
            return self.isinstance_(v, cls_of(c))
        args = [self.ev(a) for a in e.args]
        if name in self.funcs:
            return self.funcs[name](*args, **{k.arg: self.ev(k.value) for k in e.keywords})
        if e.keywords:
            raise AnalysisError(f"keyword call outside the abstract domain: {norm(e)[:80]}")
        if name == 'len' and len(args) == 1 and isinstance(args[0], (list, tuple, dict, ASet, str)):
            return len(args[0])
        if name == 'set' and len(args) <= 1:
            return ASet(self.iterate(args[0])) if args else ASet()
        if name == 'list' and len(args) <= 1:
            return list(self.iterate(args[0])) if args else []
        if name == 'tuple' and len(args) == 1:
            return tuple(self.iterate(args[0]))
        if name == 'dict' and not args:
            return {}
        if name == 'deque' and len(args) <= 1:
            return list(self.iterate(args[0])) if args else []
        if name == 'enumerate' and len(args) == 1:
            return list(enumerate(self.iterate(args[0])))
        if name == 'range' and all(isinstance(a, int) for a in args) and 1 <= len(args) <= 3:
            return list(range(*args))
        if name in ('any', 'all') and len(args) == 1:
            vals = [self.truth(x) for x in self.iterate(args[0])]
            return any(vals) if name == 'any' else all(vals)
        if name == 'repr' and len(args) == 1:
            return repr(args[0])
        if name == 'setattr' and len(args) == 3:
            o, k, v = args
            if isinstance(o, AObj) and o.settable:
                o.attrs[k] = v
                return None
            raise Raised('AttributeError', f"setattr on {o!r}")
        if name == 'getattr' and len(args) == 2:
            o, k = args
            if isinstance(o, AObj) and k in o.attrs:
                return o.attrs[k]
            raise Raised('AttributeError', f"getattr({o!r}, {k!r})")
        if name in self.classes or name[:1].isupper():
            # constructing an exception / class instance: only meaningful under `raise`
            return AObj(f"{name}(...)", tags=[name])
        raise AnalysisError(f"call outside the abstract domain: {norm(e)[:80]}")

    def call_method(self, recv, m, args, kw, e):
        if isinstance(recv, AObj):
            if m in recv.methods:
                return recv.methods[m](*args, **kw)
            tgt = recv.attrs.get(m)
            if isinstance(tgt, AObj) and '__call__' in tgt.methods:
                return tgt.methods['__call__'](*args, **kw)
            raise recv.missing(m)
        if recv is None:
            raise Raised('AttributeError', f"None has no attribute {m}")
        if kw:
            raise AnalysisError(f"keyword call outside the abstract domain: {norm(e)[:80]}")
        try:
            if isinstance(recv, list):
                if m == 'append' and len(args) == 1:
                    return recv.append(args[0])
                if m == 'appendleft' and len(args) == 1:
                    return recv.insert(0, args[0])
                if m == 'extend' and len(args) == 1:
                    return recv.extend(self.iterate(args[0]))
                if m == 'pop' and len(args) <= 1:
                    return recv.pop(*args)
                if m == 'popleft' and not args:
                    return recv.pop(0)
                if m == 'insert' and len(args) == 2:
                    return recv.insert(*args)
                if m == 'remove' and len(args) == 1:
                    for i, y in enumerate(recv):
                        if _same(y, args[0]):
                            del recv[i]
                            return None
                    raise Raised('ValueError', 'list.remove(x): x not in list')
                if m == 'copy' and not args:
                    return list(recv)
            if isinstance(recv, ASet):
                if m in ('add', 'remove', 'discard') and len(args) == 1:
                    return getattr(recv, m)(args[0])
                if m == 'update' and len(args) == 1:
                    return recv.update(self.iterate(args[0]))
                if m == 'copy' and not args:
                    return recv.copy()
            if isinstance(recv, dict):
                if m == 'items' and not args:
                    return list(recv.items())
                if m == 'keys' and not args:
                    return list(recv.keys())
                if m == 'values' and not args:
                    return list(recv.values())
                if m == 'get' and 1 <= len(args) <= 2:
                    return recv.get(*args)
                if m == 'setdefault' and len(args) == 2:
                    return recv.setdefault(*args)
                if m == 'pop' and 1 <= len(args) <= 2:
                    if args[0] not in recv and len(args) == 1:
                        raise Raised('KeyError', repr(args[0]))
                    return recv.pop(*args)
            if isinstance(recv, str) and m in ('format', 'join', 'replace'):
                return getattr(recv, m)(*[a if isinstance(a, str) else
                                         ([repr(x) if not isinstance(x, str) else x for x in a] if isinstance(a, list)
                                          else repr(a)) for a in args])
        except IndexError:
            raise Raised('IndexError', norm(e)[:60])
        raise AnalysisError(f"method call outside the abstract domain: {norm(e)[:80]}")

    def iterate(self, v):
        if isinstance(v, (list, tuple)):
            return list(v)
        if isinstance(v, ASet):
            return list(v.items)
        if isinstance(v, dict):
            return list(v.keys())
        if isinstance(v, AObj) or v is None or isinstance(v, int):
            raise Raised('TypeError', f"{v!r} is not iterable")
        raise AnalysisError(f"iteration over a value outside the abstract domain: {v!r}")

    # ------------------------------------------------------------------ statements
    def assign(self, t, v):
        if isinstance(t, ast.Name):
            self.env[t.id] = v
        elif isinstance(t, (ast.Tuple, ast.List)):
            vals = self.iterate(v)
            if any(isinstance(x, ast.Starred) for x in t.elts):
                raise AnalysisError("starred assignment outside the abstract domain")
            if len(vals) != len(t.elts):
                raise Raised('ValueError', 'unpack')
            for te, ve in zip(t.elts, vals):
                self.assign(te, ve)
        elif isinstance(t, ast.Subscript):
            base = self.ev(t.value)
            if isinstance(t.slice, ast.Slice):
                raise AnalysisError("slice store outside the abstract domain")
            idx = self.ev(t.slice)
            if isinstance(base, dict):
                base[idx] = v
            elif isinstance(base, list):
                if not isinstance(idx, int) or not -len(base) <= idx < len(base):
                    raise Raised('IndexError', repr(idx))
                base[idx] = v
            elif isinstance(base, AObj) and base.items is not None:
                base.items[idx] = v
            elif isinstance(base, (AObj, tuple)):
                raise Raised('TypeError', f"{base!r} does not support item assignment")
            else:
                raise AnalysisError(f"subscript store outside the abstract domain: {norm(t)}")
        elif isinstance(t, ast.Attribute):
            base = self.ev(t.value)
            if isinstance(base, AObj) and (base.settable or t.attr in base.attrs):
                base.attrs[t.attr] = v
            elif isinstance(base, AObj):
                raise Raised('AttributeError', f"cannot set {t.attr} on {base.name}")
            else:
                raise AnalysisError(f"attribute store outside the abstract domain: {norm(t)}")
        else:
            raise AnalysisError(f"assignment target outside the abstract domain: {norm(t)}")

    def run(self, stmts):
        """('fall', None) / ('return', v) / ('raise', Raised)"""
        try:
            self.block(stmts)
        except _Return as r:
            return ('return', r.value)
        except Raised as r:
            return ('raise', r)
        except (_Break, _Continue):
            raise AnalysisError("break/continue outside a loop in the extracted block")
        return ('fall', None)

    def run_loop_body(self, stmts):
        """body of a loop extracted without its header: ('fall'|'continue'|'break'|'return'|'raise', payload)"""
        try:
            self.block(stmts)
        except _Return as r:
            return ('return', r.value)
        except Raised as r:
            return ('raise', r)
        except _Break:
            return ('break', None)
        except _Continue:
            return ('continue', None)
        return ('fall', None)

    def block(self, stmts):
        for st in stmts:
            self.stmt(st)

    def tick(self):
        self.steps += 1
        if self.steps > self.max_steps:
            raise Raised('NonTermination', 'the extracted loop does not terminate on this abstract input')

    def stmt(self, st):
        self.tick()
        if isinstance(st, ast.Expr):
            if not isinstance(st.value, ast.Constant):
                self.ev(st.value)
        elif isinstance(st, ast.Assign):
            v = self.ev(st.value)
            for t in st.targets:
                self.assign(t, v)
        elif isinstance(st, ast.AugAssign):
            cur = self.ev(st.target)      # the evaluators ignore ctx, so the target can be read as it stands
            rhs = self.ev(st.value)
            if isinstance(st.op, ast.BitOr) and isinstance(cur, ASet):
                cur.update(self.iterate(rhs))
                return
            if isinstance(st.op, ast.Sub) and isinstance(cur, ASet):
                for x in self.iterate(rhs):
                    cur.discard(x)
                return
            if isinstance(st.op, ast.Add) and isinstance(cur, list):
                cur.extend(self.iterate(rhs))
                return
            f = _ARITH.get(type(st.op))
            if f is not None and isinstance(cur, int) and isinstance(rhs, int):
                self.assign(st.target, f(cur, rhs))
                return
            raise AnalysisError(f"augmented assignment outside the abstract domain: {norm(st)}")
        elif isinstance(st, ast.If):
            self.block(st.body if self.truth(self.ev(st.test)) else st.orelse)
        elif isinstance(st, ast.For):
            broke = False
            for item in self.iterate(self.ev(st.iter)):
                self.tick()
                self.assign(st.target, item)
                try:
                    self.block(st.body)
                except _Break:
                    broke = True
                    break
                except _Continue:
                    continue
            if not broke:
                self.block(st.orelse)
        elif isinstance(st, ast.While):
            broke = False
            while self.truth(self.ev(st.test)):
                self.tick()
                try:
                    self.block(st.body)
                except _Break:
                    broke = True
                    break
                except _Continue:
                    continue
            if not broke:
                self.block(st.orelse)
        elif isinstance(st, ast.Break):
            raise _Break()
        elif isinstance(st, ast.Continue):
            raise _Continue()
        elif isinstance(st, ast.Pass):
            pass
        elif isinstance(st, ast.Return):
            raise _Return(None if st.value is None else self.ev(st.value))
        elif isinstance(st, ast.Assert):
            if not self.truth(self.ev(st.test)):
                raise Raised('AssertionError', norm(st.test))
        elif isinstance(st, ast.Raise):
            if st.exc is None:
                if self._exc:
                    raise self._exc[-1]
                raise AnalysisError("bare raise outside a handler")
            exc = st.exc
            name = norm(exc.func) if isinstance(exc, ast.Call) else norm(exc)
            raise Raised(name.split('.')[-1], 'raised explicitly')
        elif isinstance(st, ast.Try):
            try:
                try:
                    self.block(st.body)
                except Raised as r:
                    for h in st.handlers:
                        if self._handler_matches(h, r):
                            if h.name:
                                self.env[h.name] = AObj(f"<{r.what}>", tags=[r.what])
                            self._exc.append(r)
                            try:
                                self.block(h.body)
                            finally:
                                self._exc.pop()
                            break
                    else:
                        raise
                else:
                    self.block(st.orelse)
            finally:
                if st.finalbody:
                    self.block(st.finalbody)
        elif isinstance(st, ast.Delete):
            for t in st.targets:
                if isinstance(t, ast.Subscript):
                    base, idx = self.ev(t.value), self.ev(t.slice)
                    if isinstance(base, dict):
                        if idx not in base:
                            raise Raised('KeyError', repr(idx))
                        del base[idx]
                        continue
                elif isinstance(t, ast.Name) and t.id in self.env:
                    del self.env[t.id]
                    continue
                raise AnalysisError(f"del outside the abstract domain: {norm(st)}")
        else:
            raise AnalysisError(f"statement outside the abstract domain: {type(st).__name__}: {norm(st)[:80]}")

    def _handler_matches(self, h, r):
        if h.type is None:
            return True
        names = [norm(x) for x in h.type.elts] if isinstance(h.type, ast.Tuple) else [norm(h.type)]
        names = [n.split('.')[-1] for n in names]
        if r.what == 'NonTermination':
            return False
        return r.what in names or 'Exception' in names or 'BaseException' in names


class DDict(dict):
    """model of collections.defaultdict(set): a missing key reads as a fresh empty ASet that is stored"""
    def __missing__(self, k):
        v = ASet()
        self[k] = v
        return v


def nonuniform_literals(stmts, allowed=(0, 1, -1)):
    """integer literals / list slices in an extracted block that make its behaviour depend on *how many* elements
    there are (e.g. `len(x) > 3`, `xs[:3]`): the bounded enumeration of short sequences is then not exhaustive"""
    out = []
    for st in stmts:
        for n in ast.walk(st):
            if isinstance(n, ast.Constant) and isinstance(n.value, int) and not isinstance(n.value, bool) \
                    and n.value not in allowed:
                out.append(norm(n))
            elif isinstance(n, ast.UnaryOp) and isinstance(n.op, ast.USub) and isinstance(n.operand, ast.Constant):
                continue
            elif isinstance(n, ast.Slice) and any(isinstance(b, ast.Constant) or
                                                  (isinstance(b, ast.UnaryOp) and isinstance(b.operand, ast.Constant))
                                                  for b in (n.lower, n.upper) if b is not None):
                out.append(f"[{norm(n)}]")
    return out
