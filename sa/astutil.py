"""AST helpers shared by the rules: normalisation, structural guards
(dominating conditions), small def-use helpers."""
import ast
import copy

from .errors import AnalysisError


def norm(node):
    """Normalised text of a node (formatting/parentheses independent)."""
    if node is None:
        return 'None'
    if isinstance(node, list):
        return '; '.join(norm(n) for n in node)
    return ast.unparse(node)


def parent(node):
    return getattr(node, '_parent', None)


def enclosing(node, types):
    p = parent(node)
    while p is not None and not isinstance(p, types):
        p = parent(p)
    return p


def enclosing_func(node):
    return enclosing(node, (ast.FunctionDef, ast.AsyncFunctionDef, ast.Lambda))


def walk_no_nested(node, include_self=True):
    """ast.walk that does not descend into nested function/class definitions
    (the root itself may be a def)."""
    todo = [node] if include_self else list(ast.iter_child_nodes(node))
    first = True
    while todo:
        n = todo.pop()
        yield n
        for ch in ast.iter_child_nodes(n):
            if isinstance(ch, (ast.FunctionDef, ast.AsyncFunctionDef, ast.ClassDef, ast.Lambda)):
                continue
            todo.append(ch)


def body_walk(func):
    """all nodes of a function's body, not descending into nested defs"""
    for st in func.body:
        yield from walk_no_nested(st)


def calls_in(node, nested=False):
    it = ast.walk(node) if nested else walk_no_nested(node)
    return [n for n in it if isinstance(n, ast.Call)]


def call_name(call):
    """dotted name of the callee or None"""
    return dotted(call.func)


def dotted(e):
    if isinstance(e, ast.Name):
        return e.id
    if isinstance(e, ast.Attribute):
        b = dotted(e.value)
        return None if b is None else b + '.' + e.attr
    if isinstance(e, ast.Call):
        b = dotted(e.func)
        return None if b is None else b + '()'
    return None


def names_in(node):
    return {n.id for n in ast.walk(node) if isinstance(n, ast.Name)}


def always_exits(stmts):
    """True if every path through the statement list ends in return/raise/continue/break
    (conservative: structured control flow only)."""
    for st in stmts:
        if isinstance(st, (ast.Return, ast.Raise, ast.Continue, ast.Break)):
            return True
        if isinstance(st, ast.Assert) and isinstance(st.test, ast.Constant) and st.test.value is False:
            return True
        if isinstance(st, ast.If) and st.orelse and always_exits(st.body) and always_exits(st.orelse):
            return True
        if isinstance(st, ast.Try):
            if (always_exits(st.body) or (st.orelse and always_exits(st.orelse))) and \
               all(always_exits(h.body) for h in st.handlers):
                return True
            if st.finalbody and always_exits(st.finalbody):
                return True
        if isinstance(st, ast.With) and always_exits(st.body):
            return True
    return False


def exit_kind(stmts):
    """for a block for which always_exits holds: set of exit kinds reachable"""
    kinds = set()
    for st in stmts:
        for n in walk_no_nested(st):
            if isinstance(n, ast.Return):
                kinds.add('return')
            elif isinstance(n, ast.Raise):
                kinds.add('raise')
            elif isinstance(n, ast.Continue):
                kinds.add('continue')
            elif isinstance(n, ast.Break):
                kinds.add('break')
    return kinds


def _assigned_names(stmts):
    out = set()
    for st in stmts:
        for n in walk_no_nested(st):
            if isinstance(n, ast.Name) and isinstance(n.ctx, (ast.Store, ast.Del)):
                out.add(n.id)
    return out


class Guard:
    """A condition known at a program point: `test` evaluated to `polarity`.
    kind: 'if' (enclosing branch), 'exit' (earlier sibling `if test: <exits>`),
    'assert' (earlier sibling assert), 'except' (inside handler of given type),
    'loop' (inside body of a loop)."""
    def __init__(self, test, polarity, kind, node):
        # normalise `not X`: flip the polarity, keep X
        while isinstance(test, ast.UnaryOp) and isinstance(test.op, ast.Not) and isinstance(polarity, bool):
            test, polarity = test.operand, not polarity
        self.test, self.polarity, self.kind, self.node = test, polarity, kind, node

    @property
    def exit_block(self):
        """for an 'exit' guard: the statements of the branch that leaves"""
        if self.kind != 'exit':
            return []
        n = self.node
        if always_exits(n.body) and not n.orelse:
            return n.body
        return n.orelse

    def __repr__(self):
        return f"{'' if self.polarity else 'not '}({norm(self.test)})[{self.kind}]"


def guards_of(node, stop=None):
    """Structural dominating conditions of `node` inside its function:
    conditions of enclosing if-branches, negations of earlier sibling
    `if c: <always exits>` statements and earlier sibling asserts at every
    enclosing block level.  A guard is dropped when one of the names it
    mentions is re-assigned between the guard and the node (in the same
    block)."""
    guards = []
    cur = node
    while True:
        p = parent(cur)
        if p is None or cur is stop:
            break
        # find which block list of p contains cur
        for fld in ('body', 'orelse', 'finalbody', 'handlers'):
            blk = getattr(p, fld, None)
            if isinstance(blk, list) and any(x is cur for x in blk):
                if fld == 'handlers':
                    break
                idx = [i for i, x in enumerate(blk) if x is cur][0]
                prev = blk[:idx]
                for j, st in enumerate(prev):
                    between = prev[j + 1:]
                    g = None
                    if isinstance(st, ast.If) and always_exits(st.body) and not st.orelse:
                        g = Guard(st.test, False, 'exit', st)
                    elif isinstance(st, ast.If) and st.orelse and always_exits(st.orelse) and not always_exits(st.body):
                        g = Guard(st.test, True, 'exit', st)
                    elif isinstance(st, ast.Assert):
                        g = Guard(st.test, True, 'assert', st)
                    if g is not None:
                        if names_in(g.test) & _assigned_names(between):
                            continue
                        guards.append(g)
                    elif isinstance(st, ast.If) and always_exits(st.body) and st.orelse:
                        # `if a: <exits> elif b: <exits> ...` -- whoever gets past the statement has a false, and b false if the
                        # chain continues with exiting arms (a trailing arm that falls through adds nothing)
                        cur_if = st
                        while isinstance(cur_if, ast.If) and always_exits(cur_if.body):
                            if not (names_in(cur_if.test) & _assigned_names(between)):
                                guards.append(Guard(cur_if.test, False, 'exit', cur_if))
                            nxt = cur_if.orelse
                            cur_if = nxt[0] if len(nxt) == 1 and isinstance(nxt[0], ast.If) else None
                if isinstance(p, ast.If):
                    guards.append(Guard(p.test, fld == 'body', 'if', p))
                elif isinstance(p, ast.While) and fld == 'body':
                    guards.append(Guard(p.test, True, 'loop', p))
                elif isinstance(p, ast.For) and fld == 'body':
                    guards.append(Guard(p.iter, True, 'loop', p))
                break
        if isinstance(p, ast.ExceptHandler):
            guards.append(Guard(p.type, True, 'except', p))
        if isinstance(p, (ast.FunctionDef, ast.AsyncFunctionDef, ast.Lambda, ast.ClassDef, ast.Module)):
            break
        cur = p
    return guards


def stmt_of(node):
    """innermost statement containing node"""
    cur = node
    while cur is not None and not isinstance(cur, ast.stmt):
        cur = parent(cur)
    return cur


def preceding_stmts(node):
    """statements that execute before `node` on every structured path in the same
    function: earlier siblings at each enclosing block level (outermost first)."""
    out = []
    cur = stmt_of(node)
    while cur is not None:
        p = parent(cur)
        if p is None:
            break
        for fld in ('body', 'orelse', 'finalbody'):
            blk = getattr(p, fld, None)
            if isinstance(blk, list) and any(x is cur for x in blk):
                idx = [i for i, x in enumerate(blk) if x is cur][0]
                out = blk[:idx] + out
                break
        if isinstance(p, (ast.FunctionDef, ast.AsyncFunctionDef, ast.Lambda)):
            break
        cur = p
    return out


def reaching_value(name, at_node):
    """Value expression of the unique assignment `name = expr` that dominates
    `at_node` in its function (earlier sibling at some enclosing level, simple
    single-target assignment or tuple assignment), or None when there is none /
    it is ambiguous.  Later re-assignments between are honoured (last wins)."""
    val = None
    for st in preceding_stmts(at_node):
        if isinstance(st, ast.Assign):
            for t in st.targets:
                if isinstance(t, ast.Name) and t.id == name:
                    val = st.value
                elif isinstance(t, (ast.Tuple, ast.List)) and isinstance(st.value, (ast.Tuple, ast.List)) \
                        and len(t.elts) == len(st.value.elts):
                    for te, ve in zip(t.elts, st.value.elts):
                        if isinstance(te, ast.Name) and te.id == name:
                            val = ve
        elif isinstance(st, (ast.AugAssign, ast.AnnAssign)):
            if isinstance(st.target, ast.Name) and st.target.id == name:
                val = None if isinstance(st, ast.AugAssign) else st.value
        elif any(isinstance(n, ast.Name) and n.id == name and isinstance(n.ctx, ast.Store)
                 for n in walk_no_nested(st)):
            val = None   # assigned inside a nested block: ambiguous
    return val


def inline_locals(expr, at_node, depth=4):
    """copy of expr in which every Name that has a unique dominating assignment (see reaching_value) is replaced by the
    assigned expression, recursively: `k = (a, b); return hash(k)` reads as `hash((a, b))`.  Names without such a
    definition (parameters, loop variables, ambiguous ones) are left alone."""
    if depth == 0:
        return clone(expr)
    mapping = {}
    for n in ast.walk(expr):
        if isinstance(n, ast.Name) and isinstance(n.ctx, ast.Load) and n.id not in mapping:
            v = reaching_value(n.id, at_node)
            if v is not None and not any(isinstance(x, ast.Name) and x.id == n.id for x in ast.walk(v)):
                mapping[n.id] = inline_locals(v, at_node, depth - 1)
    return subst(expr, mapping) if mapping else clone(expr)


_FLIP = {ast.In: ast.NotIn, ast.NotIn: ast.In, ast.Eq: ast.NotEq, ast.NotEq: ast.Eq, ast.Is: ast.IsNot, ast.IsNot: ast.Is,
         ast.Lt: ast.GtE, ast.GtE: ast.Lt, ast.Gt: ast.LtE, ast.LtE: ast.Gt}


def canon_atom(test, polarity):
    """(text, True) form of an atom that holds with the given polarity where the negation can be pushed into the atom:
    (`x in y`, False) -> (`x not in y`, True), (`not c`, False) -> (`c`, True); other atoms keep their polarity"""
    while isinstance(test, ast.UnaryOp) and isinstance(test.op, ast.Not):
        test, polarity = test.operand, not polarity
    if not polarity and isinstance(test, ast.Compare) and len(test.ops) == 1 and type(test.ops[0]) in _FLIP:
        t = clone(test)
        t.ops = [_FLIP[type(test.ops[0])]()]
        return norm(t), True
    return norm(test), polarity


def guard_atoms(node, stop=None, canonical=False):
    """set of (normalised atom, polarity) over all enclosing if-tests of `node` (up to `stop`), conjunctions split:
    nested ifs, one merged `and` and swapped conjuncts give the same set; with canonical=True negations are pushed into
    comparison atoms, so the guard-clause form `if x in s: continue` equals the wrapping form `if x not in s:`"""
    if canonical:
        out = set()
        for g in guards_of(node):
            if g.kind not in ('if', 'exit') or (stop is not None and not any(x is g.node for x in ast.walk(stop))):
                continue
            t, pol = g.test, g.polarity
            while isinstance(t, ast.UnaryOp) and isinstance(t.op, ast.Not):
                t, pol = t.operand, not pol
            if isinstance(t, ast.BoolOp) and ((pol and isinstance(t.op, ast.And)) or (not pol and isinstance(t.op, ast.Or))):
                for v in t.values:
                    out.add(canon_atom(v, pol))
            else:
                out.add(canon_atom(t, pol))
        return out
    out = set()
    for g in guards_of(node):
        if g.kind not in ('if', 'exit'):
            continue
        if stop is not None and not any(x is g.node for x in ast.walk(stop)):
            continue
        t = g.test
        if g.polarity and isinstance(t, ast.BoolOp) and isinstance(t.op, ast.And):
            for v in t.values:
                out.add((norm(v), True))
        elif (not g.polarity) and isinstance(t, ast.BoolOp) and isinstance(t.op, ast.Or):
            for v in t.values:
                out.add((norm(v), False))
        else:
            out.add((norm(t), g.polarity))
    return out


def clone(node):
    """structural copy of an ast subtree: only the grammar fields are followed (the loader's `_parent` back links are not,
    so the copy does not drag the whole module along as copy.deepcopy would)"""
    if isinstance(node, list):
        return [clone(x) for x in node]
    if not isinstance(node, ast.AST):
        return node
    new = type(node)()
    for f in node._fields:
        if hasattr(node, f):
            setattr(new, f, clone(getattr(node, f)))
    for a in ('lineno', 'col_offset', 'end_lineno', 'end_col_offset'):
        if hasattr(node, a):
            setattr(new, a, getattr(node, a))
    return new


def subst(expr, mapping):
    """copy of expr with Name nodes replaced per mapping name -> ast expr"""
    class T(ast.NodeTransformer):
        def visit_Name(self, n):
            if n.id in mapping and isinstance(n.ctx, ast.Load):
                return clone(mapping[n.id])
            return n
    return T().visit(clone(expr))


def const_value(e):
    """python value of a literal expression (ints, strs, bools, None, unary minus) else raises"""
    try:
        return ast.literal_eval(e)
    except Exception:
        raise AnalysisError(f"not a literal: {norm(e)}")


def find_all(root, pred, nested=True):
    it = ast.walk(root) if nested else walk_no_nested(root)
    return [n for n in it if pred(n)]


def loc(mod, node):
    return f"{mod.rel}:{getattr(node, 'lineno', 0)}"


def qualname(node):
    parts = []
    cur = node
    while cur is not None:
        if isinstance(cur, (ast.FunctionDef, ast.AsyncFunctionDef, ast.ClassDef)):
            parts.append(cur.name)
        elif isinstance(cur, ast.Lambda):
            parts.append('<lambda>')
        cur = parent(cur)
    return '.'.join(reversed(parts))
