"""Helpers of rules/c20.py: symbolic single-instruction evaluation of the tutorial processors.

Nothing of pymtl3 or of the examples is imported or run.  The pieces:

* `Cube`      -- a set of 32-bit instruction words given by (mask, match); the instruction space is
                 partitioned into cubes, never sampled.
* `BV`/`Sym`  -- abstract values: a bit vector whose bits are 0, 1 or a *named source bit* (instruction
                 bit k, immediate bit k), and an opaque data term with a width and a magnitude bound.
* `Interp`    -- an abstract interpreter for the small Python subset the models are written in.  A test
                 that depends on a free instruction bit raises `Undetermined` (the driver splits the
                 cube on that bit and re-evaluates: exhaustive case analysis); a test on symbolic data
                 raises `Fork` (both outcomes are explored and merged into an if-then-else term).
                 Anything outside the vocabulary raises AnalysisError -- never a silent pass.
* `Design`    -- a static netlist of an RTL component hierarchy read from the `construct` methods
                 (instances, `//=` connections, update blocks); `Eval` computes the value of a signal on
                 demand by executing the update block that writes it, in the *steady-flow abstraction*
                 (pipeline registers transparent, no stall/squash) declared by the rule.
* `IsaDoc`    -- parser of the ISA document (instruction list, semantics lines, bit-field diagrams).
"""
import ast
import re

from .astutil import norm
from .errors import AnalysisError

W = 32
MISSING = object()


# ---------------------------------------------------------------------------
# cubes of instruction words
class Cube(tuple):
    def __new__(cls, mask, match):
        mask &= (1 << W) - 1
        return tuple.__new__(cls, (mask, match & mask))

    mask = property(lambda s: s[0])
    match = property(lambda s: s[1])

    def __and__(self, o):
        if (self.match ^ o.match) & self.mask & o.mask:
            return None
        return Cube(self.mask | o.mask, self.match | o.match)

    def minus(self, o):
        """self \\ o as a list of disjoint cubes"""
        if (self & o) is None:
            return [self]
        out, cur = [], self
        for k in range(W):
            b = 1 << k
            if (o.mask & b) and not (cur.mask & b):
                out.append(Cube(cur.mask | b, cur.match | (b & ~o.match)))
                cur = Cube(cur.mask | b, cur.match | (b & o.match))
        return out

    def contains(self, o):
        return (self.mask & ~o.mask) == 0 and (o.match & self.mask) == self.match

    def fix(self, lo, hi, value):
        m = ((1 << (hi - lo)) - 1) << lo
        return self & Cube(m, value << lo)

    def __str__(self):
        return ''.join(('1' if (self.match >> k) & 1 else '0') if (self.mask >> k) & 1 else '?'
                       for k in reversed(range(W)))

    def size_log2(self):
        return W - bin(self.mask).count('1')


FULL = Cube(0, 0)


def region_minus(region, cube):
    out = []
    for c in region:
        out.extend(c.minus(cube))
    return out


# ---------------------------------------------------------------------------
# abstract values
class BV:
    """bit vector, LSB first; a bit is 0, 1 or a source ('i', k) / ('m', k)"""
    __slots__ = ('bits',)

    def __init__(self, bits):
        self.bits = tuple(bits)
        if not self.bits:
            raise AnalysisError("empty bit vector")

    @staticmethod
    def const(v, n):
        return BV((v >> i) & 1 for i in range(n))

    @property
    def n(self):
        return len(self.bits)

    def concrete(self):
        return all(b == 0 or b == 1 for b in self.bits if not isinstance(b, tuple)) and \
            not any(isinstance(b, tuple) for b in self.bits)

    def value(self):
        return sum(b << i for i, b in enumerate(self.bits))

    def lo(self):
        return sum((b if not isinstance(b, tuple) else 0) << i for i, b in enumerate(self.bits))

    def hi(self):
        return sum((b if not isinstance(b, tuple) else 1) << i for i, b in enumerate(self.bits))

    def first_free(self):
        for b in reversed(self.bits):
            if isinstance(b, tuple):
                return b
        return None

    def __eq__(self, o):
        return isinstance(o, BV) and o.bits == self.bits

    def __hash__(self):
        return hash(self.bits)

    def __repr__(self):
        return 'BV<' + ''.join(str(b) if not isinstance(b, tuple) else f"{b[0]}{b[1]}." for b in reversed(self.bits)) + '>'


class Sym:
    """opaque data term of width n whose value is < 2**ub"""
    __slots__ = ('term', 'n', 'ub')

    def __init__(self, term, n, ub=None):
        self.term, self.n = term, n
        self.ub = n if ub is None else min(ub, n)

    def __eq__(self, o):
        return isinstance(o, Sym) and (o.term, o.n) == (self.term, self.n)

    def __hash__(self):
        return hash((self.term, self.n))

    def __repr__(self):
        return f"Sym{self.n}{self.term}"


class PInt:
    """an exact (unbounded) Python integer computed from data: `.uint()` / `.int()` of a Bits value and arithmetic on it --
    no reduction modulo 2^n happens on it"""
    __slots__ = ('term', 'ub', 'signed', 'bv', 'neg')

    def __init__(self, term, ub, signed=False, bv=None, neg=False):
        # bv: the source-bit vector the integer was read from (its value is bv, or bv - 2^n when `neg`: the two's
        # complement reading of a vector whose sign bit is 1)
        self.term, self.ub, self.signed, self.bv, self.neg = term, ub, signed, bv, neg

    def bounds(self):
        off = (1 << self.bv.n) if self.neg else 0
        return self.bv.lo() - off, self.bv.hi() - off, self.bv.first_free()

    def __repr__(self):
        return f"PInt{self.term}"


class IntSym:
    """an unknown Python integer (assembler operand); bit k of it is the source ('m', k)"""
    def __init__(self, tag='m'):
        self.tag = tag


class StrTok:
    """an unknown Python string (assembler operand)"""
    def __init__(self, tag='str'):
        self.tag = tag


class Ext:
    """a path below `s` that the model of the rule gives a meaning to"""
    __slots__ = ('path',)

    def __init__(self, path):
        self.path = path

    def __repr__(self):
        return f"Ext({self.path})"


class Rec:
    """record with named fields (message objects)"""
    def __init__(self, kind, **fields):
        self.kind, self.fields = kind, fields

    def __repr__(self):
        return f"Rec({self.kind},{self.fields})"


class EnumTok:
    __slots__ = ('cls', 'name')

    def __init__(self, cls, name):
        self.cls, self.name = cls, name

    def __eq__(self, o):
        return isinstance(o, EnumTok) and (o.cls, o.name) == (self.cls, self.name)

    def __hash__(self):
        return hash((self.cls, self.name))

    def __repr__(self):
        return f"{self.cls}.{self.name}"


class ClassRef:
    def __init__(self, mod, node):
        self.mod, self.node = mod, node


class FuncRef:
    def __init__(self, mod, node, self_obj=None):
        self.mod, self.node, self.self_obj = mod, node, self_obj


class Obj:
    def __init__(self, cref):
        self.cref, self.fields = cref, {}


class BitsCtor:
    def __init__(self, n):
        self.n = n


class Builtin:
    def __init__(self, name):
        self.name = name


class PyFunc:
    """a callable supplied by the rule's model"""
    def __init__(self, fn):
        self.fn = fn


# control-flow signals of the interpreter
class Undetermined(Exception):
    def __init__(self, src):
        self.src = src


class Fork(Exception):
    def __init__(self, cond):
        self.cond = cond


class Raised(Exception):
    """the interpreted code raises an exception"""
    def __init__(self, what):
        self.what = what


class _Continue(Exception):
    pass


class _Break(Exception):
    pass


class _Return(Exception):
    def __init__(self, value):
        self.value = value


# ---------------------------------------------------------------------------
# terms
def _key(t):
    return repr(t)


def termof(v):
    if isinstance(v, bool):
        v = int(v)
    if isinstance(v, int):
        return ('const', v)
    if isinstance(v, BV):
        return ('const', v.value()) if v.concrete() else ('bv', v.bits)
    if isinstance(v, (Sym, PInt)):
        return v.term
    raise AnalysisError(f"value without a data term: {v!r}")


def ubof(v):
    if isinstance(v, bool):
        v = int(v)
    if isinstance(v, int):
        if v < 0:
            raise AnalysisError("negative integer in data arithmetic")
        return v.bit_length()
    if isinstance(v, BV):
        return v.hi().bit_length()
    return v.ub


def widthof(v):
    return v.n if isinstance(v, (BV, Sym)) else None


def is_conc(v):
    return isinstance(v, (int, bool)) or (isinstance(v, BV) and v.concrete())


def conc(v):
    return v.value() if isinstance(v, BV) else int(v)


def mk_add(terms):
    """n-ary exact integer sum: nested sums flattened, constants folded, operands sorted"""
    flat, c = [], 0
    for t in terms:
        if t[0] == 'add':
            sub = t[1:]
        else:
            sub = (t,)
        for x in sub:
            if x[0] == 'const':
                c += x[1]
            else:
                flat.append(x)
    if c:
        flat.append(('const', c))
    if not flat:
        return ('const', 0)
    if len(flat) == 1:
        return flat[0]
    return ('add',) + tuple(sorted(flat, key=_key))


def _strip(k, t):
    """t modulo 2^k does not depend on reductions modulo 2^m (m >= k) applied to its addends"""
    if t[0] == 'mod' and t[1] >= k:
        return _strip(k, t[2])
    if t[0] == 'add':
        return mk_add([_strip(k, x) for x in t[1:]])
    if t[0] == 'sub':
        return ('sub', _strip(k, t[1]), _strip(k, t[2]))
    if t[0] == 'shlc' and t[1] < k:
        return ('shlc', t[1], _strip(k - t[1], t[2]))
    if t[0] == 'const':
        return ('const', t[1] % (1 << k))
    return t


def mk_mod(k, t):
    return ('mod', k, _strip(k, t))


def comm(op, a, b):
    a, b = sorted((a, b), key=_key)
    return (op, a, b)


def binop(op, a, b, where=''):
    """Bits arithmetic on abstract values (PythonBits semantics: result width = operand width, modulo 2^n)"""
    na, nb = widthof(a), widthof(b)
    if na is None and nb is None and (isinstance(a, PInt) or isinstance(b, PInt)):
        ta, tb = termof(a), termof(b)
        sg = any(isinstance(x, PInt) and x.signed for x in (a, b)) or any(isinstance(x, int) and x < 0 for x in (a, b))
        if op == 'add':
            return PInt(mk_add([ta, tb]), 64 if sg else max(ubof(a), ubof(b)) + 1, sg)
        if op == 'sub':
            return PInt(('sub', ta, tb), 64, True)
        if op == 'and':
            for x, y in ((a, b), (b, a)):
                if isinstance(y, int) and y >= 0 and y & (y + 1) == 0:
                    k = y.bit_length()
                    if not getattr(x, 'signed', False) and x.ub <= k:
                        return x
                    return PInt(mk_mod(k, termof(x)), k)
        raise AnalysisError(f"operator {op} on Python integers derived from data {where}")
    if na is None and nb is None:
        if isinstance(a, (int, bool)) and isinstance(b, (int, bool)):
            import operator
            f = {'add': operator.add, 'sub': operator.sub, 'and': operator.and_, 'or': operator.or_,
                 'xor': operator.xor, 'shl': operator.lshift, 'shr': operator.rshift, 'mul': operator.mul,
                 'floordiv': operator.floordiv, 'mod': operator.mod}[op]
            return f(int(a), int(b))
        raise AnalysisError(f"arithmetic on {a!r}, {b!r} {where}")
    if na is not None and nb is not None and na != nb and op not in ('shl', 'shr'):
        raise AnalysisError(f"operands of different widths (Bits{na} {op} Bits{nb}) {where}")
    n = na if na is not None else nb
    mask = (1 << n) - 1
    for x in (a, b):
        if isinstance(x, (int, bool)) and not (0 <= int(x) <= mask):
            raise AnalysisError(f"integer operand {x} does not fit Bits{n} {where}")
        if isinstance(x, PInt) and (x.signed or x.ub > n):
            raise AnalysisError(f"Python integer operand of unbounded magnitude combined with Bits{n} {where}")
    if is_conc(a) and is_conc(b):
        x, y = conc(a), conc(b)
        if op == 'add': r = x + y
        elif op == 'sub': r = x - y
        elif op == 'and': r = x & y
        elif op == 'or': r = x | y
        elif op == 'xor': r = x ^ y
        elif op == 'shl': r = 0 if y >= n else x << y
        elif op == 'shr': r = 0 if y >= n else x >> y
        else:
            raise AnalysisError(f"operator {op} outside the abstract domain {where}")
        return BV.const(r & mask, n)
    # bitwise operations of a source-bit vector with a constant stay source-bit vectors
    if op in ('and', 'or') and ((isinstance(a, BV) and is_conc(b)) or (isinstance(b, BV) and is_conc(a))):
        v, c = (a, conc(b)) if isinstance(a, BV) and not a.concrete() else (b, conc(a))
        if op == 'and':
            return BV((bit if (c >> i) & 1 else 0) for i, bit in enumerate(v.bits))
        return BV((1 if (c >> i) & 1 else bit) for i, bit in enumerate(v.bits))
    if op in ('shl', 'shr') and isinstance(a, BV) and is_conc(b):
        k = conc(b)
        if op == 'shl':
            return BV(([0] * k + list(a.bits))[:n]) if k < n else BV.const(0, n)
        return BV((list(a.bits)[k:] + [0] * k)[:n]) if k < n else BV.const(0, n)
    ta, tb = termof(a), termof(b)
    ua, ub_ = ubof(a), ubof(b)
    if op == 'add':
        if ta == ('const', 0):
            return Sym(tb, n, ub_)
        if tb == ('const', 0):
            return Sym(ta, n, ua)
        t = mk_add([ta, tb])
        u = max(ua, ub_) + 1
        return Sym(t, n, u) if u <= n else Sym(mk_mod(n, t), n, n)
    if op == 'sub':
        if tb == ('const', 0):
            return Sym(ta, n, ua)
        return Sym(mk_mod(n, ('sub', ta, tb)), n, n)
    if op == 'and':
        for (tx, ux), (ty, y) in (((ta, ua), (tb, b)), ((tb, ub_), (ta, a))):
            if is_conc(y):
                c = conc(y)
                if c == 0:
                    return BV.const(0, n)
                if c & (c + 1) == 0:            # mask 2^k - 1
                    k = c.bit_length()
                    if ux <= k:
                        return Sym(tx, n, ux)
                    return Sym(mk_mod(k, tx), n, k)
        return Sym(comm('and', ta, tb), n, min(ua, ub_))
    if op == 'or':
        for (tx, ux), (ty, uy) in (((ta, ua), (tb, ub_)), ((tb, ub_), (ta, ua))):
            if tx == ('const', 0):
                return Sym(ty, n, uy)
            if tx[0] == 'shlc' and uy <= tx[1]:
                return Sym(('cat', tx[2], ty, tx[1]), n, ux)
        if n == 1 and (ta == ('const', 1) or tb == ('const', 1)):
            return BV.const(1, 1)
        return Sym(comm('or', ta, tb), n, max(ua, ub_))
    if op == 'xor':
        return Sym(comm('xor', ta, tb), n, max(ua, ub_))
    if op in ('shl', 'shr'):
        if is_conc(b):
            k = conc(b)
            if k == 0:
                return Sym(ta, n, ua)
            if k >= n:
                return BV.const(0, n)
            if op == 'shl':
                t = ('shlc', k, ta)
                return Sym(t, n, ua + k) if ua + k <= n else Sym(mk_mod(n, t), n, n)
            return Sym(('shrc', k, ta), n, max(ua - k, 0))
        return Sym((op, ta, tb), n, n if op == 'shl' else ua)
    raise AnalysisError(f"operator {op} outside the abstract domain {where}")


def do_slice(v, lo, hi, where=''):
    n = widthof(v)
    if n is None:
        raise AnalysisError(f"slice of a non-Bits value {v!r} {where}")
    if not (0 <= lo < hi <= n):
        raise AnalysisError(f"slice [{lo}:{hi}] outside a Bits{n} value {where}")
    if isinstance(v, BV):
        return BV(v.bits[lo:hi])
    if lo == 0:
        if v.ub <= hi:
            return Sym(v.term, hi, v.ub)
        return Sym(mk_mod(hi, v.term), hi, hi)
    return Sym(('bits', lo, hi, v.term), hi - lo)


def do_sext(v, n, where=''):
    if isinstance(v, BV):
        if n < v.n:
            raise AnalysisError(f"sext to a narrower width {where}")
        return BV(list(v.bits) + [v.bits[-1]] * (n - v.n))
    if isinstance(v, Sym):
        if n == v.n:
            return v
        return Sym(('sext', v.n, v.term), n)
    raise AnalysisError(f"sext of {v!r} {where}")


def do_zext(v, n, where=''):
    if isinstance(v, BV):
        if n < v.n:
            raise AnalysisError(f"zext to a narrower width {where}")
        return BV(list(v.bits) + [0] * (n - v.n))
    if isinstance(v, Sym):
        if n < v.n:
            raise AnalysisError(f"zext to a narrower width {where}")
        return Sym(v.term, n, v.ub)
    raise AnalysisError(f"zext of {v!r} {where}")


def do_concat(vals, where=''):
    if all(isinstance(v, BV) for v in vals):
        bits = []
        for v in reversed(vals):
            bits.extend(v.bits)
        return BV(bits)
    cur = None
    for v in reversed(vals):           # LSB part first
        if widthof(v) is None:
            raise AnalysisError(f"concat of a non-Bits value {where}")
        if cur is None:
            cur = v
            continue
        cur = Sym(('cat', termof(v), termof(cur), cur.n), v.n + cur.n)
    return cur


def to_bits(v, n, where=''):
    """BitsN(v)"""
    if isinstance(v, bool):
        v = int(v)
    if isinstance(v, int):
        if not (-(1 << (n - 1)) <= v < (1 << n)):
            raise AnalysisError(f"value {v} does not fit Bits{n} {where}")
        return BV.const(v & ((1 << n) - 1), n)
    if isinstance(v, IntSym):
        return BV((v.tag, k) for k in range(n))
    if isinstance(v, PInt):
        if v.signed or v.ub > n:
            raise AnalysisError(f"Bits{n}( unbounded Python integer ) {where}")
        return Sym(v.term, n, v.ub)
    if isinstance(v, (BV, Sym)):
        if v.n != n:
            raise AnalysisError(f"Bits{n}( Bits{v.n} ) {where}")
        return v
    raise AnalysisError(f"Bits{n}({v!r}) {where}")


def eq3(a, b, where=''):
    """three-valued equality: True / False / raises Undetermined or returns a Sym condition"""
    if isinstance(a, PInt) or isinstance(b, PInt):
        for x, y in ((a, b), (b, a)):
            if isinstance(x, PInt) and x.bv is not None and isinstance(y, (int, bool)):
                lo, hi, free = x.bounds()
                if not (lo <= int(y) <= hi):
                    return False
                if x.neg:
                    return eq3(x.bv, int(y) + (1 << x.bv.n), where)
                return eq3(x.bv, int(y), where) if int(y) < (1 << x.bv.n) else False
        return Sym(comm('eq', termof(a), termof(b)), 1)
    if isinstance(a, (Sym,)) or isinstance(b, (Sym,)):
        for x, y in ((a, b), (b, a)):
            if isinstance(x, Sym) and isinstance(y, (int, bool)) and not (0 <= int(y) < (1 << x.n)):
                raise Raised('ValueError')       # Bits == int outside [0, 2^n) raises in PythonBits
        return Sym(comm('eq', termof(a), termof(b)), 1)
    if isinstance(a, BV) or isinstance(b, BV):
        n = widthof(a) if isinstance(a, BV) else widthof(b)
        for x in (a, b):
            if isinstance(x, (int, bool)):
                if not (0 <= int(x) < (1 << n)):
                    raise Raised('ValueError')   # Bits == int outside [0, 2^n) raises in PythonBits
            elif not isinstance(x, BV):
                return False
        if isinstance(a, BV) and isinstance(b, BV) and a.n != b.n:
            raise AnalysisError(f"comparison of Bits{a.n} with Bits{b.n} {where}")
        ba = a.bits if isinstance(a, BV) else BV.const(int(a), n).bits
        bb = b.bits if isinstance(b, BV) else BV.const(int(b), n).bits
        free = None
        for x, y in zip(ba, bb):
            if x == y:
                continue
            if not isinstance(x, tuple) and not isinstance(y, tuple):
                return False
            if free is None:
                free = x if isinstance(x, tuple) else y
        if free is not None:
            raise Undetermined(free)
        return True
    if isinstance(a, StrTok) or isinstance(b, StrTok):
        other = b if isinstance(a, StrTok) else a
        return Sym(('streq', repr(other)), 1)
    return a == b


def order3(op, a, b, where=''):
    """three-valued unsigned order comparison by interval reasoning"""
    def rng(x):
        if isinstance(x, bool):
            x = int(x)
        if isinstance(x, int):
            return x, x, None
        if isinstance(x, BV):
            return x.lo(), x.hi(), x.first_free()
        if isinstance(x, PInt) and x.bv is not None:
            return x.bounds()
        if isinstance(x, Sym) or (isinstance(x, PInt) and not x.signed):
            return 0, (1 << x.ub) - 1, 'sym'
        raise AnalysisError(f"order comparison of {x!r} {where}")
    la, ha, fa = rng(a)
    lb, hb, fb = rng(b)
    swapped = op in ('gt', 'ge')
    if swapped:
        la, ha, fa, lb, hb, fb = lb, hb, fb, la, ha, fa
        op = {'gt': 'lt', 'ge': 'le'}[op]
    if op == 'lt':
        if ha < lb:
            return True
        if la >= hb:
            return False
    else:
        if ha <= lb:
            return True
        if la > hb:
            return False
    for f in (fa, fb):
        if isinstance(f, tuple):
            raise Undetermined(f)
    # undetermined comparison of symbolic data with something: a symbolic condition (both outcomes are explored)
    (x, y) = (b, a) if swapped else (a, b)          # now the question is  x <op> y  with op in lt/le
    tx, ty = termof(x), termof(y)
    if op == 'lt' and tx == ('const', 0):
        return Sym(comm('ne', ty, ('const', 0)), 1)      # 0 < y   <=>  y != 0   (unsigned)
    if op == 'le' and ty == ('const', 0):
        return Sym(comm('eq', tx, ('const', 0)), 1)      # x <= 0  <=>  x == 0   (unsigned)
    return Sym((op, tx, ty), 1)


class Ctx:
    """decisions on symbolic conditions of one evaluation run"""
    def __init__(self, decisions=()):
        self.decisions = list(decisions)
        self.k = 0
        self.trail = []
        self.steps = 0

    def decide(self, cond):
        neg = False
        if cond[0] == 'ne':
            cond, neg = ('eq',) + tuple(cond[1:]), True
        for c, b in self.trail:
            if c == cond:
                return b != neg
        if self.k < len(self.decisions):
            b = self.decisions[self.k]
            self.k += 1
            self.trail.append((cond, b))
            return b != neg
        raise Fork(cond)


def instvec(cube, tag='i'):
    return BV(((cube.match >> k) & 1) if (cube.mask >> k) & 1 else (tag, k) for k in range(W))


def explore(cube, run, limit=4096):
    """run(cube, ctx) -> result; returns [(leaf cube, trail, result)] covering `cube` exactly"""
    out, work = [], [(cube, [])]
    while work:
        if len(out) + len(work) > limit:
            raise AnalysisError("case analysis exceeds its budget")
        c, dec = work.pop()
        ctx = Ctx(dec)
        try:
            res = run(c, ctx)
        except Undetermined as u:
            tag, k = u.src
            if tag != 'i' or (c.mask >> k) & 1:
                raise AnalysisError(f"evaluation depends on an unsplittable source bit {u.src}")
            b = 1 << k
            work.append((Cube(c.mask | b, c.match | b), []))
            work.append((Cube(c.mask | b, c.match), []))
            continue
        except Fork:
            work.append((c, dec + [False]))
            work.append((c, dec + [True]))
            continue
        out.append((c, list(ctx.trail), res))
    return out


# ---------------------------------------------------------------------------
# the interpreter
_BUILTINS = {'sext', 'zext', 'concat', 'int', 'range', 'len', 'trunc', 'mk_bits', 'print', 'str', 'isinstance', 'slice',
             'hex', 'clog2', 'reduce'}
_BINOPS = {ast.Add: 'add', ast.Sub: 'sub', ast.BitAnd: 'and', ast.BitOr: 'or', ast.BitXor: 'xor',
           ast.LShift: 'shl', ast.RShift: 'shr', ast.Mult: 'mul', ast.FloorDiv: 'floordiv', ast.Mod: 'mod'}


def resolve_name(repo, mod, name, _seen=None):
    """like Repo.resolve, but a later `from x import *` shadows an earlier one (Python semantics):
    `RD` in ProcCtrlRTL is TinyRV0InstRTL.RD, not the constraint class pymtl3.RD"""
    _seen = _seen or set()
    if (mod.rel, name) in _seen:
        return None
    _seen.add((mod.rel, name))
    if name in mod.classes or name in mod.functions or name in mod.assigns or name in mod.imports:
        return repo.resolve(mod, name)
    for dotted in reversed(mod.star_imports):
        rel = repo.dotted_to_rel(dotted)
        if rel is None:
            continue
        r = resolve_name(repo, repo.mod(rel), name, _seen)
        if r is not None:
            return r
    return None


class Model:
    """default model: nothing below `s` has a meaning"""
    def name(self, name):
        return MISSING

    def get(self, path):
        return MISSING

    def set(self, path, v):
        raise AnalysisError(f"assignment to {path} outside the model")

    def call(self, path, args, kwargs):
        raise AnalysisError(f"call of {path} outside the model")

    def getitem(self, path, idx):
        raise AnalysisError(f"subscript of {path} outside the model")

    def setitem(self, path, idx, v):
        raise AnalysisError(f"subscript assignment to {path} outside the model")

    def sig_write(self, path, v, ff):
        raise AnalysisError(f"signal write to {path} outside the model")


class Interp:
    def __init__(self, repo, mod, ctx=None, model=None, env=None, doc_slices=False, self_name='s'):
        self.repo, self.mod = repo, mod
        self.ctx = ctx or Ctx()
        self.model = model or Model()
        self.env = dict(env or {})
        self.doc_slices = doc_slices
        self.self_name = self_name

    # -- names -----------------------------------------------------------
    def lookup(self, name):
        if name in self.env:
            return self.env[name]
        if name == self.self_name and self.self_name:
            return Ext(name)
        v = self.model.name(name)
        if v is not MISSING:
            return v
        if name in ('True', 'False', 'None'):
            return {'True': True, 'False': False, 'None': None}[name]
        m = re.fullmatch(r'(?:b|Bits)(\d+)', name)
        if m:
            return BitsCtor(int(m.group(1)))
        if name in _BUILTINS:
            return Builtin(name)
        v = self.modconst(self.mod, name)
        if v is not MISSING:
            return v
        raise AnalysisError(f"unbound name `{name}` in {self.mod.rel}")

    def modconst(self, mod, name):
        _modconst_cache = self.repo.__dict__.setdefault('_c20_modconst', {})   # per Repo object (overlay-safe)
        key = (mod.rel, name)
        if key in _modconst_cache:
            return _modconst_cache[key]
        r = resolve_name(self.repo, mod, name)
        if r is None:
            v = MISSING
        else:
            m, node = r
            if isinstance(node, ast.ClassDef):
                v = ClassRef(m, node)
            elif isinstance(node, (ast.FunctionDef, ast.AsyncFunctionDef)):
                v = FuncRef(m, node)
            elif isinstance(node, ast.Module):
                v = MISSING
            else:
                _modconst_cache[key] = MISSING      # cut recursion
                v = Interp(self.repo, m, self_name=None).ev(node)
        _modconst_cache[key] = v
        return v

    # -- expressions -----------------------------------------------------
    def ev(self, e):
        self.ctx.steps += 1
        if self.ctx.steps > 200000:
            raise AnalysisError("abstract evaluation exceeds its step budget")
        m = getattr(self, 'ev_' + type(e).__name__, None)
        if m is None:
            raise AnalysisError(f"expression outside the abstract domain: {type(e).__name__}: {norm(e)[:80]}")
        return m(e)

    def ev_Constant(self, e):
        return e.value

    def ev_Name(self, e):
        return self.lookup(e.id)

    def ev_Tuple(self, e):
        return tuple(self.ev(x) for x in e.elts)

    def ev_List(self, e):
        return [self.ev(x) for x in e.elts]

    def ev_Dict(self, e):
        return {self._hashable(self.ev(k)): self.ev(v) for k, v in zip(e.keys, e.values)}

    @staticmethod
    def _hashable(v):
        return v

    def ev_JoinedStr(self, e):
        return '<fstring>'

    def ev_Slice(self, e):
        lo = None if e.lower is None else self.index(self.ev(e.lower))
        hi = None if e.upper is None else self.index(self.ev(e.upper))
        if e.step is not None:
            raise AnalysisError("slice with a step")
        if self.doc_slices:       # the ISA document writes [hi:lo], both inclusive
            return slice(hi, lo + 1)
        return slice(lo, hi)

    def index(self, v):
        if isinstance(v, bool):
            return int(v)
        if isinstance(v, int):
            return v
        if isinstance(v, PInt) and v.bv is not None:
            k = self.index(v.bv)
            return k - (1 << v.bv.n) if v.neg else k
        if isinstance(v, BV):
            if v.concrete():
                return v.value()
            raise Undetermined(v.first_free())
        raise AnalysisError(f"index is not a constant: {v!r}")

    def ev_Attribute(self, e):
        base = self.ev(e.value)
        return self.getattr(base, e.attr, e)

    def getattr(self, base, attr, e=None):
        if isinstance(base, Ext):
            p = base.path + '.' + attr
            v = self.model.get(p)
            return Ext(p) if v is MISSING else v
        if isinstance(base, Obj):
            if attr in base.fields:
                return base.fields[attr]
            f = self.class_attr(base.cref, attr)
            if isinstance(f, FuncRef):
                is_prop = any(norm(d) == 'property' for d in f.node.decorator_list)
                bound = FuncRef(f.mod, f.node, base)
                return self.call_func(bound, [], {}) if is_prop else bound
            if f is not MISSING:
                return f
            raise AnalysisError(f"object of class {base.cref.node.name} has no attribute {attr}")
        if isinstance(base, ClassRef):
            v = self.class_attr(base, attr)
            if v is MISSING:
                raise AnalysisError(f"class {base.node.name} has no attribute {attr}")
            return v
        if isinstance(base, Rec):
            if attr in base.fields:
                return base.fields[attr]
            raise AnalysisError(f"message {base.kind} has no field {attr}")
        if isinstance(base, (BV, Sym)):
            if attr == 'nbits':
                return base.n
            return ('method', base, attr)
        if isinstance(base, (StrTok, str, dict, list, tuple)):
            return ('method', base, attr)
        raise AnalysisError(f"attribute {attr} of {base!r} outside the abstract domain" + (f": {norm(e)}" if e is not None else ''))

    def class_attr(self, cref, attr):
        chain = self.repo.mro(cref.mod, cref.node)
        is_enum = any(norm(b).split('.')[-1] in ('Enum', 'IntEnum') for b in cref.node.bases)
        for m, c in chain:
            for st in c.body:
                if isinstance(st, (ast.FunctionDef, ast.AsyncFunctionDef)) and st.name == attr:
                    return FuncRef(m, st)
                if isinstance(st, ast.Assign) and any(isinstance(t, ast.Name) and t.id == attr for t in st.targets):
                    if is_enum:
                        return EnumTok(cref.node.name, attr)
                    return Interp(self.repo, m, self_name=None).ev(st.value)
        return MISSING

    def ev_Subscript(self, e):
        base = self.ev(e.value)
        if isinstance(base, Ext):
            idx = self.ev(e.slice)
            return self.model.getitem(base.path, idx)
        idx = self.ev(e.slice)
        return self.subscript(base, idx, e)

    def subscript(self, base, idx, e=None):
        where = f"in {norm(e)}" if e is not None else ''
        if isinstance(base, (BV, Sym)):
            if isinstance(idx, slice):
                lo = 0 if idx.start is None else idx.start
                hi = base.n if idx.stop is None else idx.stop
                return do_slice(base, lo, hi, where)
            k = self.index(idx)
            return do_slice(base, k, k + 1, where)
        if isinstance(base, (list, tuple)):
            if isinstance(idx, slice):
                return base[idx]
            return base[self.index(idx)]
        if isinstance(base, dict):
            if isinstance(idx, (StrTok, Sym, IntSym)) or idx not in base:
                raise Raised('KeyError')
            return base[idx]
        if isinstance(base, StrTok):
            return StrTok(base.tag)
        if isinstance(base, str):
            return base[idx]
        raise AnalysisError(f"subscript outside the abstract domain {where}")

    def ev_BinOp(self, e):
        op = _BINOPS.get(type(e.op))
        if op is None:
            raise AnalysisError(f"operator outside the abstract domain: {norm(e)}")
        if op == 'and':
            # a & b with one side a constant zero vector is zero whatever the other side is (the blocks have no
            # side effects): avoids case splits on instruction bits that cannot matter
            def zero(v):
                return isinstance(v, BV) and v.concrete() and v.value() == 0
            try:
                left = self.ev(e.left)
            except Undetermined:
                right = self.ev(e.right)
                if zero(right):
                    return right
                raise
            if zero(left):
                return left
            return binop(op, left, self.ev(e.right), f"in {norm(e)[:60]}")
        return binop(op, self.ev(e.left), self.ev(e.right), f"in {norm(e)[:60]}")

    def ev_UnaryOp(self, e):
        v = self.ev(e.operand)
        if isinstance(e.op, ast.Not):
            t = self.truth(v, e, decide=False)
            if isinstance(t, Sym):
                return self.negate(t)
            return not t
        if isinstance(e.op, ast.USub) and isinstance(v, int):
            return -v
        if isinstance(e.op, ast.Invert):
            if isinstance(v, BV):
                if any(isinstance(b, tuple) for b in v.bits):
                    raise Undetermined(v.first_free())
                return BV(1 - b for b in v.bits)
            if isinstance(v, Sym) and v.n == 1:
                return self.negate(v)
        raise AnalysisError(f"unary operator outside the abstract domain: {norm(e)}")

    @staticmethod
    def negate(s):
        t = s.term
        if t[0] == 'eq':
            return Sym(('ne',) + tuple(t[1:]), 1)
        if t[0] == 'ne':
            return Sym(('eq',) + tuple(t[1:]), 1)
        if t[0] == 'not':
            return Sym(t[1], 1)
        return Sym(('not', t), 1)

    def ev_Compare(self, e):
        left = self.ev(e.left)
        result = True
        bits = isinstance(left, (BV, Sym))
        syms = []
        for op, rt in zip(e.ops, e.comparators):
            right = self.ev(rt)
            bits = bits or isinstance(right, (BV, Sym))
            r = self.compare(op, left, right, e)
            if isinstance(r, Sym):
                syms.append(r.term)
            else:
                if isinstance(r, BV):
                    r = bool(r.value())
                if not r:
                    result = False
                    break
            left = right
        if result and syms:
            return Sym(syms[0], 1) if len(syms) == 1 else Sym(('all',) + tuple(syms), 1)
        return BV.const(int(result), 1) if bits else result

    def compare(self, op, a, b, e):
        where = f"in {norm(e)[:70]}"
        if isinstance(op, (ast.Eq, ast.NotEq)):
            r = eq3(a, b, where)
            if isinstance(op, ast.NotEq):
                return self.negate(r) if isinstance(r, Sym) else (not r)
            return r
        if isinstance(op, (ast.Is, ast.IsNot)):
            r = a is b
            return r if isinstance(op, ast.Is) else not r
        if isinstance(op, (ast.In, ast.NotIn)):
            if isinstance(b, dict) and isinstance(a, (StrTok, IntSym, Sym)):
                r = False
            elif isinstance(b, (dict, list, tuple, str)) and not isinstance(a, (BV, Sym)):
                r = a in b
            else:
                raise AnalysisError(f"membership test outside the abstract domain {where}")
            return r if isinstance(op, ast.In) else not r
        name = {ast.Lt: 'lt', ast.LtE: 'le', ast.Gt: 'gt', ast.GtE: 'ge'}.get(type(op))
        if name is None:
            raise AnalysisError(f"comparison outside the abstract domain {where}")
        if isinstance(a, IntSym) or isinstance(b, IntSym):
            return Sym(('intcmp', name, repr(a) if not isinstance(a, IntSym) else a.tag,
                        repr(b) if not isinstance(b, IntSym) else b.tag), 1)
        if isinstance(a, (int, bool)) and isinstance(b, (int, bool)):
            import operator
            return {'lt': operator.lt, 'le': operator.le, 'gt': operator.gt, 'ge': operator.ge}[name](a, b)
        # a negative Python int against an unsigned Bits value
        if isinstance(a, int) and a < 0 and isinstance(b, (BV, Sym)):
            return name in ('lt', 'le')
        if isinstance(b, int) and b < 0 and isinstance(a, (BV, Sym)):
            return name in ('gt', 'ge')
        return order3(name, a, b, where)

    def truth(self, v, e=None, decide=True):
        if isinstance(v, (bool, int)) or v is None or isinstance(v, (str, tuple, list, dict)):
            return bool(v)
        if isinstance(v, BV):
            if v.lo() > 0:
                return True
            if v.hi() == 0:
                return False
            raise Undetermined(v.first_free())
        if isinstance(v, PInt) and v.bv is not None:
            return True if v.neg else self.truth(v.bv, e, decide)
        if isinstance(v, Sym):
            if v.n != 1 and decide:
                raise AnalysisError(f"truth value of symbolic data{': ' + norm(e)[:60] if e is not None else ''}")
            if not decide:
                return v
            return self.ctx.decide(v.term)
        if isinstance(v, (EnumTok, Obj, Rec, ClassRef, FuncRef)):
            return True
        if isinstance(v, Ext):
            raise AnalysisError(f"truth value of {v.path}, which the model gives no meaning to")
        raise AnalysisError(f"truth value outside the abstract domain: {v!r}")

    def ev_BoolOp(self, e):
        if isinstance(e.op, ast.And):
            v = True
            for x in e.values:
                v = self.ev(x)
                if not self.truth(v, x):
                    return False
            return self.truth(v, e)
        for x in e.values:
            if self.truth(self.ev(x), x):
                return True
        return False

    def ev_IfExp(self, e):
        return self.ev(e.body) if self.truth(self.ev(e.test), e.test) else self.ev(e.orelse)

    def ev_ListComp(self, e):
        if len(e.generators) != 1 or e.generators[0].ifs:
            raise AnalysisError(f"comprehension outside the abstract domain: {norm(e)[:60]}")
        g = e.generators[0]
        out = []
        saved = dict(self.env)
        for item in self.iterate(self.ev(g.iter), g.iter):
            self.bind(g.target, item)
            out.append(self.ev(e.elt))
        self.env = saved
        return out

    def ev_Lambda(self, e):
        return FuncRef(self.mod, e)

    def iterate(self, v, e=None):
        if isinstance(v, (range, list, tuple)):
            return list(v)
        raise AnalysisError(f"iteration outside the abstract domain{': ' + norm(e)[:60] if e is not None else ''}")

    # -- calls -----------------------------------------------------------
    def ev_Call(self, e):
        if any(isinstance(a, ast.Starred) for a in e.args) or any(k.arg is None for k in e.keywords):
            raise AnalysisError(f"star arguments outside the abstract domain: {norm(e)[:60]}")
        f = self.ev(e.func)
        args = [self.ev(a) for a in e.args]
        kwargs = {k.arg: self.ev(k.value) for k in e.keywords}
        return self.call(f, args, kwargs, e)

    def call(self, f, args, kwargs, e=None):
        where = f"in {norm(e)[:70]}" if e is not None else ''
        if isinstance(f, Ext):
            return self.model.call(f.path, args, kwargs)
        if isinstance(f, PyFunc):
            return f.fn(*args, **kwargs)
        if isinstance(f, BitsCtor):
            if len(args) > 1 or kwargs:
                raise AnalysisError(f"Bits constructor with options {where}")
            return to_bits(args[0] if args else 0, f.n, where)
        if isinstance(f, FuncRef):
            return self.call_func(f, args, kwargs)
        if isinstance(f, ClassRef):
            obj = Obj(f)
            init = self.class_attr(f, '__init__')
            if isinstance(init, FuncRef):
                self.call_func(FuncRef(init.mod, init.node, obj), args, kwargs)
            elif args or kwargs:
                raise AnalysisError(f"class {f.node.name} instantiated with arguments but has no __init__")
            return obj
        if isinstance(f, tuple) and f and f[0] == 'method':
            return self.call_method(f[1], f[2], args, kwargs, where)
        if isinstance(f, Builtin):
            return self.call_builtin(f.name, args, kwargs, where)
        raise AnalysisError(f"call outside the abstract domain {where}")

    def call_method(self, base, attr, args, kwargs, where):
        if isinstance(base, (BV, Sym)) and attr in ('clone', 'to_bits') and not args:
            return base
        if isinstance(base, (BV, Sym)) and attr == 'uint' and not args:
            if isinstance(base, BV) and base.concrete():
                return base.value()
            return PInt(termof(base), ubof(base), bv=base if isinstance(base, BV) else None)
        if isinstance(base, (BV, Sym)) and attr == 'int' and not args:
            if isinstance(base, BV) and base.concrete():
                v = base.value()
                return v - (1 << base.n) if (v >> (base.n - 1)) & 1 else v
            if isinstance(base, BV):
                sign = base.bits[-1]
                if isinstance(sign, tuple):
                    if sign[0] == 'i':
                        raise Undetermined(sign)          # case split on the sign bit
                    return PInt(('sint', base.n, termof(base)), 64, True)
                if sign == 0:
                    return PInt(termof(base), base.n - 1, bv=base)
                return PInt(('sint', base.n, termof(base)), 64, True, bv=base, neg=True)
            return PInt(('sint', base.n, termof(base)), 64, True)
        if isinstance(base, StrTok):
            if attr in ('lstrip', 'rstrip', 'strip', 'lower', 'upper'):
                return StrTok(base.tag)
            if attr in ('startswith', 'endswith'):
                return Sym(('str' + attr, repr(args[0])), 1)
        if isinstance(base, str) and attr in ('partition', 'split', 'strip', 'lstrip', 'rstrip', 'startswith', 'lower'):
            return getattr(base, attr)(*args)
        if isinstance(base, list) and attr == 'append':
            base.append(args[0])
            return None
        raise AnalysisError(f"method {attr} of {type(base).__name__} outside the abstract domain {where}")

    def call_builtin(self, name, args, kwargs, where):
        if name == 'sext':
            return do_sext(args[0], self.index(args[1]), where)
        if name == 'zext':
            return do_zext(args[0], self.index(args[1]), where)
        if name == 'trunc':
            return do_slice(args[0], 0, self.index(args[1]), where)
        if name == 'concat':
            return do_concat(args, where)
        if name == 'range':
            return range(*[self.index(a) for a in args])
        if name == 'len':
            return len(args[0])
        if name == 'slice':
            return slice(*[self.index(a) for a in args])
        if name == 'mk_bits':
            return BitsCtor(self.index(args[0]))
        if name == 'clog2':
            n = self.index(args[0])
            return max(0, (n - 1).bit_length())
        if name == 'int':
            v = args[0]
            if isinstance(v, StrTok):
                return IntSym('m')
            if isinstance(v, BV):
                return v.value() if v.concrete() else PInt(termof(v), ubof(v), bv=v)     # Bits.__int__ is unsigned
            if isinstance(v, PInt):
                return v
            if isinstance(v, (int, bool)):
                return int(v)
            if isinstance(v, str):
                return int(v, *args[1:])
            raise AnalysisError(f"int() of {v!r} {where}")
        if name in ('print', 'str', 'hex'):
            return '<str>'
        if name == 'reduce' and len(args) == 2:
            items = self.iterate(args[1])
            if not items:
                raise Raised('TypeError')
            acc = items[0]
            for x in items[1:]:
                acc = self.call(args[0], [acc, x], {})
            return acc
        raise AnalysisError(f"builtin {name} outside the abstract domain {where}")

    def call_func(self, f, args, kwargs):
        node = f.node
        if isinstance(node, ast.Lambda):
            a, body = node.args, None
        else:
            a = node.args
        params = [x.arg for x in a.posonlyargs + a.args]
        env = {}
        vals = list(args)
        if f.self_obj is not None:
            vals = [f.self_obj] + vals
        if len(vals) > len(params):
            raise AnalysisError(f"too many arguments for {getattr(node, 'name', '<lambda>')}")
        for p, v in zip(params, vals):
            env[p] = v
        defaults = dict(zip(params[len(params) - len(a.defaults):], a.defaults))
        sub = Interp(self.repo, f.mod, self.ctx, self.model, env, self.doc_slices, self_name=None)
        for p in params[len(vals):]:
            if p in kwargs:
                env[p] = kwargs[p]
            elif p in defaults:
                env[p] = sub.ev(defaults[p])
            else:
                raise AnalysisError(f"missing argument {p} for {getattr(node, 'name', '<lambda>')}")
        sub.env = env
        if isinstance(node, ast.Lambda):
            return sub.ev(node.body)
        try:
            sub.run(node.body)
        except _Return as r:
            self.last_env = sub.env
            return r.value
        self.last_env = sub.env
        return None

    # -- statements --------------------------------------------------------
    def run(self, stmts):
        for st in stmts:
            self.stmt(st)

    def stmt(self, st):
        self.ctx.steps += 1
        m = getattr(self, 'st_' + type(st).__name__, None)
        if m is None:
            raise AnalysisError(f"statement outside the abstract domain: {norm(st)[:80]}")
        m(st)

    def st_Pass(self, st):
        pass

    def st_Expr(self, st):
        if isinstance(st.value, ast.Constant):
            return
        self.ev(st.value)

    def st_Return(self, st):
        raise _Return(None if st.value is None else self.ev(st.value))

    def st_Raise(self, st):
        what = 'exception'
        if st.exc is not None:
            what = norm(st.exc.func) if isinstance(st.exc, ast.Call) else norm(st.exc)
        raise Raised(what)

    def st_Assert(self, st):
        v = self.ev(st.test)
        if isinstance(v, Sym):
            return            # an assertion on symbolic data is assumed to hold (documented precondition)
        if not self.truth(v, st.test):
            raise Raised('AssertionError')

    def st_Try(self, st):
        self.run(st.body)
        self.run(st.orelse)
        self.run(st.finalbody)

    def st_If(self, st):
        self.run(st.body if self.truth(self.ev(st.test), st.test) else st.orelse)

    def st_For(self, st):
        for item in self.iterate(self.ev(st.iter), st.iter):
            self.bind(st.target, item)
            try:
                self.run(st.body)
            except _Continue:
                continue
            except _Break:
                return
        self.run(st.orelse)

    def st_Continue(self, st):
        raise _Continue()

    def st_Break(self, st):
        raise _Break()

    def st_FunctionDef(self, st):
        self.env[st.name] = FuncRef(self.mod, st)

    def st_Assign(self, st):
        v = self.ev(st.value)
        for t in st.targets:
            self.bind(t, v)

    def st_AnnAssign(self, st):
        if st.value is not None:
            self.bind(st.target, self.ev(st.value))

    def bind(self, t, v):
        if isinstance(t, ast.Name):
            self.env[t.id] = v
        elif isinstance(t, (ast.Tuple, ast.List)):
            if not isinstance(v, (tuple, list)) or len(v) != len(t.elts):
                raise AnalysisError(f"cannot unpack {v!r} into {norm(t)}")
            for te, ve in zip(t.elts, v):
                self.bind(te, ve)
        elif isinstance(t, ast.Attribute):
            base = self.ev(t.value)
            if isinstance(base, Ext):
                self.model.set(base.path + '.' + t.attr, v)
            elif isinstance(base, Obj):
                base.fields[t.attr] = v
            else:
                raise AnalysisError(f"attribute assignment outside the abstract domain: {norm(t)}")
        elif isinstance(t, ast.Subscript):
            base = self.ev(t.value)
            idx = self.ev(t.slice)
            if isinstance(base, Ext):
                self.model.setitem(base.path, idx, v)
            elif isinstance(base, BV) and isinstance(t.value, ast.Name):
                self.env[t.value.id] = self.bv_store(base, idx, v, t)
            elif isinstance(base, list):
                base[self.index(idx)] = v
            else:
                raise AnalysisError(f"subscript assignment outside the abstract domain: {norm(t)}")
        else:
            raise AnalysisError(f"assignment target outside the abstract domain: {norm(t)}")

    def bv_store(self, base, idx, v, t):
        if isinstance(idx, slice):
            lo = 0 if idx.start is None else idx.start
            hi = base.n if idx.stop is None else idx.stop
        else:
            lo = self.index(idx)
            hi = lo + 1
        if not (0 <= lo < hi <= base.n):
            raise AnalysisError(f"slice assignment outside the vector: {norm(t)}")
        v = to_bits(v, hi - lo, f"in {norm(t)}")
        if not isinstance(v, BV):
            raise AnalysisError(f"symbolic data stored into an instruction field: {norm(t)}")
        bits = list(base.bits)
        bits[lo:hi] = v.bits
        return BV(bits)

    def st_AugAssign(self, st):
        t = st.target
        if isinstance(st.op, ast.MatMult) or (isinstance(st.op, ast.LShift) and self._is_signal(t)):
            path = self._sigpath(t)
            self.model.sig_write(path, self.ev(st.value), isinstance(st.op, ast.LShift))
            return
        op = _BINOPS.get(type(st.op))
        if op is None:
            raise AnalysisError(f"augmented assignment outside the abstract domain: {norm(st)[:70]}")
        load = ast.copy_location(_as_load(t), t)
        cur = self.ev(load)
        self.bind(t, binop(op, cur, self.ev(st.value), f"in {norm(st)[:60]}"))

    def _root(self, t):
        while isinstance(t, (ast.Attribute, ast.Subscript)):
            t = t.value
        return t

    def _is_signal(self, t):
        r = self._root(t)
        return isinstance(r, ast.Name) and r.id == self.self_name and r.id not in self.env

    def _sigpath(self, t):
        if isinstance(t, ast.Name):
            return t.id
        if isinstance(t, ast.Attribute):
            return self._sigpath(t.value) + '.' + t.attr
        if isinstance(t, ast.Subscript):
            idx = self.ev(t.slice)
            if isinstance(idx, slice):
                raise AnalysisError(f"write to a slice of a signal outside the abstract domain: {norm(t)}")
            return self._sigpath(t.value) + f"[{self.index(idx)}]"
        raise AnalysisError(f"signal target outside the abstract domain: {norm(t)}")


def _as_load(t):
    """the target expression re-read as a value (a shallow rebuild: the nodes carry parent links)"""
    if isinstance(t, ast.Name):
        return ast.Name(id=t.id, ctx=ast.Load())
    if isinstance(t, ast.Attribute):
        return ast.Attribute(value=_as_load(t.value), attr=t.attr, ctx=ast.Load())
    if isinstance(t, ast.Subscript):
        return ast.Subscript(value=_as_load(t.value), slice=t.slice, ctx=ast.Load())
    raise AnalysisError(f"augmented-assignment target outside the abstract domain: {norm(t)}")


# ---------------------------------------------------------------------------
# static netlist of an RTL hierarchy
NATIVE = {'Mux', 'Reg', 'RegEn', 'RegRst', 'RegEnRst', 'Adder', 'Incrementer', 'RegisterFile'}
NATIVE_DIR = 'pymtl3/stdlib/basic_rtl/'


class Block:
    def __init__(self, func, kind, writes):
        self.func, self.kind, self.writes = func, kind, writes


class InstInfo:
    def __init__(self, path, kind, mod, cls, kwargs):
        self.path, self.kind, self.mod, self.cls, self.kwargs = path, kind, mod, cls, kwargs
        self.consts = {}
        self.blocks = []
        self.lists = {}


class Design:
    def __init__(self, repo, rel, clsname, src_prefix='examples/'):
        self.repo = repo
        self.src_prefix = src_prefix
        self.insts = {}
        self.parent = {}
        self.consts = {}         # net key -> constant driver
        m = repo.mod(rel)
        self.top = self._elab('', m, m.get_class(clsname), {})

    # union-find over refs (name, slice|None)
    def _find(self, k):
        self.parent.setdefault(k, k)
        while self.parent[k] != k:
            self.parent[k] = self.parent[self.parent[k]]
            k = self.parent[k]
        return k

    def _union(self, a, b):
        ra, rb = self._find(a), self._find(b)
        if ra != rb:
            self.parent[ra] = rb

    def members(self, k):
        r = self._find(k)
        return [x for x in list(self.parent) if self._find(x) == r]

    def const_of(self, k):
        r = self._find(k)
        for ck, v in self.consts.items():
            if self._find(ck) == r:
                return v
        return MISSING

    def _elab(self, path, mod, cls, kwargs):
        kind = 'src' if mod.rel.startswith(self.src_prefix) else \
            ('native' if cls.name in NATIVE and mod.rel.startswith(NATIVE_DIR) else 'opaque')
        info = InstInfo(path, kind, mod, cls, kwargs)
        self.insts[path] = info
        if kind != 'src':
            return info
        lm = self.repo.lookup_method(mod, cls, 'construct')
        if lm is None:
            raise AnalysisError(f"anchor vanished: {cls.name}.construct in {mod.rel}")
        cmod, _, construct = lm
        params = [a.arg for a in construct.args.args]
        sname = params[0]
        it = Interp(self.repo, cmod, self_name=None)
        defaults = dict(zip(params[len(params) - len(construct.args.defaults):], construct.args.defaults))
        for p in params[1:]:
            if p in kwargs:
                it.env[p] = kwargs[p]
            elif p in defaults:
                try:
                    it.env[p] = it.ev(defaults[p])
                except AnalysisError:
                    pass
        info.sname = sname
        aliases = {}
        self._elab_body(info, construct.body, it, aliases, cmod)
        info.consts.update(it.env)
        return info

    def _full(self, info, local):
        return (info.path + '.' + local) if info.path else local

    def _elab_body(self, info, body, it, aliases, cmod):
        for st in body:
            if isinstance(st, ast.FunctionDef):
                decs = [norm(d).split('.')[-1] for d in st.decorator_list]
                kind = next((d for d in decs if d in ('update', 'update_ff', 'update_once')), None)
                if kind:
                    info.blocks.append(Block(st, kind, self._writes(st, info.sname)))
                continue
            if isinstance(st, ast.Assign):
                self._elab_assign(info, st, it, aliases, cmod)
                continue
            if isinstance(st, ast.AugAssign) and isinstance(st.op, ast.FloorDiv):
                self._connect(info, st.target, st.value, it, aliases)
                continue
            if isinstance(st, ast.Expr) and isinstance(st.value, ast.Call):
                fn = norm(st.value.func)
                if fn == 'connect' and len(st.value.args) == 2:
                    self._connect(info, st.value.args[0], st.value.args[1], it, aliases)
                elif fn == 'connect_pairs' and len(st.value.args) % 2 == 0:
                    for a, b in zip(st.value.args[::2], st.value.args[1::2]):
                        self._connect(info, a, b, it, aliases)
                continue
            if isinstance(st, ast.For):
                try:
                    items = it.iterate(it.ev(st.iter), st.iter)
                except AnalysisError:
                    raise AnalysisError(f"loop in {info.cls.name}.construct is not over a constant range: {norm(st.iter)}")
                for item in items:
                    it.bind(st.target, item)
                    self._elab_body(info, st.body, it, aliases, cmod)
                continue
            if isinstance(st, ast.If):
                try:
                    c = it.truth(it.ev(st.test), st.test)
                except AnalysisError:
                    raise AnalysisError(f"condition in {info.cls.name}.construct is not a constant: {norm(st.test)}")
                self._elab_body(info, st.body if c else st.orelse, it, aliases, cmod)
                continue
            # anything else in construct is irrelevant for the netlist (docstrings, set_metadata, ...)

    def _writes(self, func, sname):
        out = set()
        for n in ast.walk(func):
            if isinstance(n, ast.AugAssign) and isinstance(n.op, (ast.MatMult, ast.LShift)):
                t, parts = n.target, []
                while isinstance(t, (ast.Attribute, ast.Subscript)):
                    if isinstance(t, ast.Attribute):
                        parts.append(t.attr)
                    t = t.value
                if isinstance(t, ast.Name) and t.id == sname and parts:
                    out.add('.'.join(reversed(parts)))
        return out

    def _elab_assign(self, info, st, it, aliases, cmod):
        v = st.value
        s_targets = [t for t in st.targets if isinstance(t, ast.Attribute) and isinstance(t.value, ast.Name)
                     and t.value.id == info.sname]
        n_targets = [t for t in st.targets if isinstance(t, ast.Name)]
        call = v if isinstance(v, ast.Call) else None
        elt_call = v.elt if isinstance(v, ast.ListComp) and isinstance(v.elt, ast.Call) else None
        cref = None
        for c in (call, elt_call):
            if c is not None and isinstance(c.func, (ast.Name, ast.Attribute)):
                r = self.repo.resolve_class(cmod, c.func)
                if r is not None:
                    cref = r
        if s_targets and cref is not None and self._is_component(cref):
            name = s_targets[0].attr
            c = call or elt_call
            kwargs = {}
            for k in c.keywords:
                if k.arg:
                    try:
                        kwargs[k.arg] = it.ev(k.value)
                    except (AnalysisError, Undetermined, Fork, Raised):
                        pass
            if call is not None:
                sub = self._elab(self._full(info, name), cref[0], cref[1], kwargs)
                for t in n_targets:
                    aliases[t.id] = sub.path
            else:
                g = v.generators[0]
                items = it.iterate(it.ev(g.iter), g.iter)
                info.lists[name] = len(items)
                for i in range(len(items)):
                    self._elab(self._full(info, f"{name}[{i}]"), cref[0], cref[1], kwargs)
            return
        if s_targets and isinstance(v, ast.ListComp):
            try:
                g = v.generators[0]
                info.lists[s_targets[0].attr] = len(it.iterate(it.ev(g.iter), g.iter))
            except AnalysisError:
                pass
            return
        if n_targets and not s_targets:
            try:
                val = it.ev(v)
            except (AnalysisError, Undetermined, Fork, Raised):
                return
            for t in st.targets:
                try:
                    it.bind(t, val)
                except AnalysisError:
                    pass
            return
        if s_targets and not n_targets:
            # plain attribute initialisation (CL/FL state): remember a constant initial value
            try:
                info.consts['@' + s_targets[0].attr] = it.ev(v)
            except (AnalysisError, Undetermined, Fork, Raised):
                pass

    def _is_component(self, cref):
        m, c = cref
        if c.name in ('Wire', 'InPort', 'OutPort'):
            return False
        for bm, bc in self.repo.mro(m, c):
            if bc.name == 'Component':
                return True
        return False

    def _ref(self, info, e, it, aliases):
        """expression -> ('ref', fullname, slice|None) or ('const', value)"""
        parts, sl, cur = [], None, e
        while True:
            if isinstance(cur, ast.Attribute):
                parts.append('.' + cur.attr)
                cur = cur.value
            elif isinstance(cur, ast.Subscript):
                idx = it.ev(cur.slice)
                if isinstance(idx, slice):
                    if parts or sl is not None:
                        raise AnalysisError(f"slice in the middle of a connection operand: {norm(e)}")
                    sl = (idx.start, idx.stop)
                else:
                    parts.append(('idx', it.index(idx)))
                cur = cur.value
            else:
                break
        if not isinstance(cur, ast.Name) or cur.id not in (info.sname,) + tuple(aliases):
            try:
                return ('const', it.ev(e))
            except (AnalysisError, Undetermined, Fork, Raised):
                raise AnalysisError(f"connection operand outside the netlist model: {norm(e)}")
        name = '' if cur.id == info.sname else aliases[cur.id]
        base_is_self = cur.id == info.sname
        for p in reversed(parts):
            if isinstance(p, tuple):
                k = p[1]
                if k < 0:
                    ln = info.lists.get(name.lstrip('.')) if base_is_self else None
                    if ln is None:
                        raise AnalysisError(f"negative index into a list of unknown length: {norm(e)}")
                    k += ln
                name += f"[{k}]"
            else:
                name += p
        name = name.lstrip('.')
        if base_is_self:
            name = self._full(info, name)
        return ('ref', name, sl)

    def _connect(self, info, a, b, it, aliases):
        ra, rb = self._ref(info, a, it, aliases), self._ref(info, b, it, aliases)
        if ra[0] == 'const' and rb[0] == 'const':
            return
        if ra[0] == 'const':
            ra, rb = rb, ra
        ka = (ra[1], ra[2])
        self._find(ka)
        if rb[0] == 'const':
            self.consts[ka] = rb[1]
            return
        kb = (rb[1], rb[2])
        self._union(ka, kb)

    def owner(self, name):
        """longest instance path that is a prefix of the signal name -> (InstInfo, local name)"""
        best = ''
        for p in self.insts:
            if p and (name == p or name.startswith(p + '.')) and len(p) > len(best):
                best = p
        local = name[len(best) + 1:] if best else name
        return self.insts[best], local


class Eval:
    """demand-driven evaluation of signals of a Design for one abstract case"""
    def __init__(self, design, overrides, ctx, hooks=None, alias=None):
        self.d, self.over, self.ctx = design, dict(overrides), ctx
        self.alias = dict(alias or {})
        self.cache, self.busy = {}, []
        self.hooks = hooks or {}
        self.blocks_run = 0

    def value(self, name):
        if name in self.cache:
            return self.cache[name]
        if name in self.over:
            return self.over[name]
        if name in self.alias:
            return self.value(self.alias[name])
        if name in self.busy:
            raise AnalysisError(f"combinational/steady-flow cycle through {name} "
                                f"(via {' -> '.join(self.busy[-4:])})")
        self.busy.append(name)
        try:
            v = self._compute(name)
        finally:
            self.busy.pop()
        self.cache[name] = v
        return v

    def _direct(self, name):
        if name in self.over or name in self.alias:
            return True
        info, local = self.d.owner(name)
        if info.kind == 'src':
            return any(local in b.writes for b in info.blocks)
        if info.kind == 'native':
            return local == 'out' or local.startswith('rdata[')
        return False

    def _compute(self, name):
        info, local = self.d.owner(name)
        if info.kind == 'src':
            for b in info.blocks:
                if local in b.writes:
                    self._run_block(info, b)
                    if name not in self.cache:
                        raise AnalysisError(f"{name} is not assigned on the evaluated path of {b.func.name} (latch)")
                    return self.cache[name]
        if info.kind == 'native' and (local == 'out' or local.startswith('rdata[')):
            return self._native(info, local)
        # through the net
        key = (name, None)
        c = self.d.const_of(key)
        cands = []
        for (m, sl) in self.d.members(key):
            if m == name and sl is None:
                continue
            if sl is not None:
                cands.append((m, sl))
            elif self._direct(m):
                cands.append((m, None))
        if c is not MISSING:
            if cands:
                raise AnalysisError(f"net of {name} has a constant and another driver")
            return c
        if len(cands) != 1:
            raise AnalysisError(f"net of {name} has {len(cands)} drivers in the static netlist "
                                f"({', '.join(m for m, _ in cands[:4])})")
        m, sl = cands[0]
        v = self.value(m)
        if sl is not None:
            v = do_slice(v, sl[0], sl[1], f"in the connection of {name}")
        return v

    def _native(self, info, local):
        cname = info.cls.name
        p = info.path
        if cname == 'Mux':
            sel = self.value(p + '.sel')
            if isinstance(sel, Sym):
                raise AnalysisError(f"mux select of {p} is symbolic")
            if isinstance(sel, BV) and not sel.concrete():
                raise Undetermined(sel.first_free())
            return self.value(f"{p}.in_[{conc(sel)}]")
        if cname in ('Reg', 'RegEn', 'RegRst', 'RegEnRst'):
            return self.value(p + '.in_')          # steady flow: the register hands the value to the next stage
        if cname == 'Adder':
            return binop('add', self.value(p + '.in0'), self.value(p + '.in1'), f"in {p}")
        if cname == 'Incrementer':
            amount = info.kwargs.get('amount', 1)
            return binop('add', self.value(p + '.in_'), amount, f"in {p}")
        if cname == 'RegisterFile':
            i = local[len('rdata['):-1]
            addr = self.value(f"{p}.raddr[{i}]")
            if not isinstance(addr, BV):
                raise AnalysisError(f"register file {p} read with a symbolic data address")
            return Sym(('R', addr.bits), 32)
        raise AnalysisError(f"native component {cname} without a model")

    def _run_block(self, info, b):
        self.blocks_run += 1
        store = {}
        ev = self

        class M(Model):
            def name(self_, name):
                return info.consts.get(name, MISSING)

            def get(self_, path):
                local = path.split('.', 1)[1]
                if local in store:
                    return store[local]
                full = ev.d._full(info, local)
                if local in b.writes:
                    if full in ev.over:
                        return ev.over[full]
                    raise AnalysisError(f"{full} is read in {b.func.name} before it is assigned")
                if ev._known(full):
                    return ev.value(full)
                return MISSING

            def getitem(self_, path, idx):
                local = path.split('.', 1)[1]
                k = idx
                if isinstance(k, BV):
                    if not k.concrete():
                        raise Undetermined(k.first_free())
                    k = k.value()
                if not isinstance(k, int):
                    raise AnalysisError(f"index of {path} is not a constant")
                loc = f"{local}[{k}]"
                if loc in store:
                    return store[loc]
                return ev.value(ev.d._full(info, loc))

            def sig_write(self_, path, v, ff):
                local = path.split('.', 1)[1]
                store[local] = v

            def call(self_, path, args, kwargs):
                raise AnalysisError(f"call of {path} in an RTL block")

        it = Interp(self.d.repo, info.mod, self.ctx, M(), self_name=info.sname)
        it.run(b.func.body)
        for local, v in store.items():
            full = self.d._full(info, local)
            if full not in self.over:
                self.cache[full] = v

    def _known(self, full):
        """is `full` a signal (something with a driver or a net), as opposed to a path prefix?"""
        if full in self.over or full in self.cache:
            return True
        info, local = self.d.owner(full)
        if info.path == full:
            return False
        if info.kind == 'src' and any(local in b.writes for b in info.blocks):
            return True
        if info.kind == 'native':
            return True
        return (full, None) in self.d.parent


# ---------------------------------------------------------------------------
# the ISA document
class IsaDoc:
    def __init__(self, text):
        self.lines = text.splitlines()
        self.sections = {}      # title -> list of lines
        cur = None
        for i, ln in enumerate(self.lines):
            if ln.startswith('### '):
                cur = ln[4:].strip()
                self.sections[cur] = []
            elif i + 1 < len(self.lines) and re.fullmatch(r'[-=]{10,}\s*', self.lines[i + 1]) and ln.strip():
                cur = ln.strip()
                self.sections[cur] = []
            elif cur is not None:
                self.sections[cur].append(ln)

    def section(self, title):
        if title not in self.sections:
            raise AnalysisError(f"anchor vanished: section `{title}` of the ISA document")
        return self.sections[title]

    def instruction_list(self):
        """names in the overview list (bullets of upper-case mnemonics)"""
        sec = None
        for t in self.sections:
            if 'Overview' in t:
                sec = self.sections[t]
        if sec is None:
            raise AnalysisError("anchor vanished: ISA overview section")
        names = []
        for ln in sec:
            m = re.match(r'\s*-\s+(.*)', ln)
            if not m:
                continue
            body = re.sub(r'\(.*?\)', '', m.group(1))
            toks = [t.strip() for t in body.split(',')]
            if toks and all(re.fullmatch(r'[A-Z][A-Z0-9]*', t) for t in toks if t):
                names.extend(t.lower() for t in toks if t)
        return names

    @staticmethod
    def diagram(lines):
        """first bit-field diagram in `lines` -> list of (hi, lo, cell text)"""
        for i, ln in enumerate(lines):
            if re.fullmatch(r'\s*\+[-+]+\+\s*', ln) and i >= 1 and i + 1 < len(lines) and '|' in lines[i + 1]:
                hdr, row = lines[i - 1], lines[i + 1]
                pipes = [k for k, ch in enumerate(row) if ch == '|']
                nums = [(m.start(), int(m.group())) for m in re.finditer(r'\d+', hdr)]
                cells = []
                for a, b in zip(pipes, pipes[1:]):
                    ns = [v for (col, v) in nums if a < col < b]
                    cells.append([ns, row[a + 1:b].strip()])
                out = []
                for j, (ns, text) in enumerate(cells):
                    if not ns or len(ns) > 2:
                        raise AnalysisError(f"cannot read the bit positions of diagram cell `{text}`")
                    hi = ns[0]
                    if len(ns) == 2:
                        lo = ns[1]
                    elif j + 1 < len(cells) and cells[j + 1][0]:
                        lo = cells[j + 1][0][0] + 1
                    else:
                        lo = hi
                    out.append((hi, lo, text))
                prev = None
                for hi, lo, _ in out:
                    if hi < lo or (prev is not None and hi != prev - 1):
                        raise AnalysisError("bit-field diagram is not contiguous")
                    prev = lo
                return out
        raise AnalysisError("anchor vanished: bit-field diagram in the ISA document")

    def instruction(self, name):
        sec = self.section(name.upper())
        info = {}
        for ln in sec:
            m = re.match(r'\s*-\s+(Summary|Assembly|Semantics|Format)\s*:\s*(.*)', ln)
            if m:
                info[m.group(1).lower()] = m.group(2).strip()
        for k in ('semantics', 'format'):
            if k not in info:
                raise AnalysisError(f"anchor vanished: `{k}` line of {name.upper()} in the ISA document")
        info['diagram'] = self.diagram(sec)
        return info

    def detailed_instructions(self):
        out = []
        for t, sec in self.sections.items():
            if re.fullmatch(r'[A-Z][A-Z0-9]*', t) and any(re.match(r'\s*-\s+Semantics\s*:', ln) for ln in sec):
                out.append(t.lower())
        return out

    def csr_table(self):
        sec = None
        for t in self.sections:
            if 'Control/Status' in t:
                sec = self.sections[t]
        if sec is None:
            raise AnalysisError("anchor vanished: CSR section of the ISA document")
        out = {}
        for ln in sec:
            m = re.match(r'\s+(\w+)\s+M\s+(RW|R|W)\s+(0x[0-9a-fA-F]+)\s*$', ln)
            if m:
                out[m.group(1)] = (m.group(2), int(m.group(3), 16))
        return out


def parse_semantics(text):
    """`lhs = rhs` of the ISA document -> Python ast statement (C ternary rewritten)"""
    m = re.fullmatch(r'(.*?)=(?!=)\s*\((.*)\)\s*\?(.*):(.*)', text)
    if m and '!' not in m.group(1) and '<' not in m.group(1) and '>' not in m.group(1):
        text = f"{m.group(1).strip()} = ({m.group(3).strip()}) if ({m.group(2).strip()}) else ({m.group(4).strip()})"
    try:
        tree = ast.parse(text.strip())
    except SyntaxError as e:
        raise AnalysisError(f"cannot parse the semantics `{text}` of the ISA document: {e}")
    if len(tree.body) != 1 or not isinstance(tree.body[0], ast.Assign):
        raise AnalysisError(f"semantics `{text}` is not a single assignment")
    return tree.body[0]
