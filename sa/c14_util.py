"""Helpers for the C14 rules (hierarchical names): a small path-sensitive *symbolic* executor for one
function and a string-template domain.

The executor never runs the code under analysis on concrete inputs.  It enumerates the structured
paths of one function (if/elif/else forks, loops as "skipped" or "one generic iteration" with the
loop-assigned names havocked, try/except handlers as alternatives) and keeps, per path,

  * env     local name -> *substituted* expression (aliases, arithmetic, tuples and strings are inlined;
            results of calls that create or fetch objects, list displays, unpacked tuples, loop
            variables become opaque symbols `name$k` whose definition is kept in `SymExec.defs`),
  * conds   the branch conditions / assertions taken, substituted the same way,
  * events  attribute stores, subscript stores, call statements, deletes -- in execution order.

Two substituted expressions with the same normalised text denote the same value on that path.
Anything outside the statement vocabulary raises AnalysisError.
"""
import ast
import re
import string

from .astutil import norm, walk_no_nested
from .errors import AnalysisError

PURE_FUNCS = {'str', 'repr', 'slice', 'tuple', 'len', 'int', 'range', 'enumerate', 'reversed', 'isinstance',
              'issubclass', 'getattr', 'hasattr', 'type', 'bool', 'min', 'max', 'abs', 'id', 'callable', 'sorted',
              'zip', 'frozenset'}
PURE_STR_METHODS = {'join', 'format'}


def pretty(e):
    """normalised text without the `$k` suffixes of opaque symbols (messages / construct keys only)"""
    t = e if isinstance(e, str) else norm(e)
    return re.sub(r'\$\d+', '', t)


def same(a, b):
    return a is not None and b is not None and norm(a) == norm(b)


# ---------------------------------------------------------------------------
def _all_names(t):
    return [x.id for x in ast.walk(t) if isinstance(x, ast.Name)]


def subst(expr, env):
    """copy of expr with free Name loads replaced per env; comprehension / lambda scopes respected"""
    def go(n, bound):
        if isinstance(n, ast.Name):
            if n.id in env and n.id not in bound:
                return env[n.id]          # substituted trees are never mutated: sharing is safe
            return ast.Name(id=n.id, ctx=ast.Load())
        if isinstance(n, (ast.ListComp, ast.SetComp, ast.GeneratorExp, ast.DictComp)):
            b = set(bound)
            gens = []
            for g in n.generators:
                it = go(g.iter, b)
                b |= {x.id for x in ast.walk(g.target) if isinstance(x, ast.Name)}
                gens.append(ast.comprehension(target=go(g.target, frozenset(_all_names(g.target))), iter=it,
                                              ifs=[go(i, b) for i in g.ifs], is_async=g.is_async))
            if isinstance(n, ast.DictComp):
                return ast.DictComp(key=go(n.key, b), value=go(n.value, b), generators=gens)
            return type(n)(elt=go(n.elt, b), generators=gens)
        if isinstance(n, ast.Lambda):
            b = set(bound) | {a.arg for a in n.args.args + n.args.kwonlyargs + n.args.posonlyargs}
            for a in (n.args.vararg, n.args.kwarg):
                if a is not None:
                    b.add(a.arg)
            return ast.Lambda(args=go(n.args, b), body=go(n.body, b))
        new = type(n)()
        for f, v in ast.iter_fields(n):
            if isinstance(v, list):
                setattr(new, f, [go(x, bound) if isinstance(x, ast.AST) else x for x in v])
            elif isinstance(v, ast.AST):
                if isinstance(v, ast.expr_context):
                    setattr(new, f, ast.Load())
                else:
                    setattr(new, f, go(v, bound))
            else:
                setattr(new, f, v)
        return new
    return go(expr, frozenset())


class Def:
    """definition of an opaque symbol"""
    def __init__(self, kind, name, node=None, expr=None, index=None, arity=None, pre=None, phase=None):
        self.kind, self.name, self.node, self.expr = kind, name, node, expr
        self.index, self.arity, self.pre, self.phase = index, arity, pre, phase

    def __repr__(self):
        return f"Def({self.kind} {self.name} {pretty(self.expr) if self.expr is not None else ''} {self.index})"


class Ev:
    """event on a path.  kind: 'attr' (obj.attr = value), 'sub' (obj[key] = value), 'call' (call evaluated;
    bound = symbol receiving the result or None for an expression statement), 'del', 'aug'"""
    def __init__(self, kind, node, **kw):
        self.kind, self.node = kind, node
        self.obj = kw.get('obj')
        self.attr = kw.get('attr')
        self.key = kw.get('key')
        self.value = kw.get('value')
        self.call = kw.get('call')
        self.bound = kw.get('bound')
        self.loops = kw.get('loops', ())

    def __repr__(self):
        if self.kind == 'attr':
            return f"{pretty(self.obj)}.{self.attr} = {pretty(self.value)}"
        if self.kind == 'sub':
            return f"{pretty(self.obj)}[{pretty(self.key)}] = {pretty(self.value)}"
        if self.kind == 'call':
            return f"call {pretty(self.call)}"
        return f"{self.kind} {pretty(self.obj) if self.obj is not None else ''}"


class Cond:
    def __init__(self, test, polarity, kind, node):
        while isinstance(test, ast.UnaryOp) and isinstance(test.op, ast.Not):
            test, polarity = test.operand, not polarity
        if isinstance(test, ast.Compare) and len(test.ops) == 1:
            flip = {ast.NotIn: ast.In, ast.IsNot: ast.Is, ast.NotEq: ast.Eq}.get(type(test.ops[0]))
            if flip is not None:
                test = ast.Compare(left=test.left, ops=[flip()], comparators=test.comparators)
                polarity = not polarity
        self.test, self.polarity, self.kind, self.node = test, polarity, kind, node

    def atoms(self):
        """conjunctive atoms implied by this condition: (test, polarity) pairs"""
        t, p = self.test, self.polarity
        if isinstance(t, ast.BoolOp) and ((isinstance(t.op, ast.And) and p) or (isinstance(t.op, ast.Or) and not p)):
            out = []
            for v in t.values:
                out.extend(Cond(v, p, self.kind, self.node).atoms())
            return out
        return [(t, p)]

    def __repr__(self):
        return f"{'' if self.polarity else 'not '}({pretty(self.test)})[{self.kind}]"


class State:
    def __init__(self):
        self.env = {}
        self.conds = []
        self.events = []
        self.status = 'run'
        self.retval = None
        self.exc = None
        self.loops = ()

    def add_cond(self, c):
        c.at = len(self.events)      # number of events that happened before the condition was tested
        self.conds.append(c)

    def fork(self):
        s = State()
        s.env = dict(self.env)
        s.conds = list(self.conds)
        s.events = list(self.events)
        s.status, s.retval, s.exc, s.loops = self.status, self.retval, self.exc, self.loops
        return s

    def atoms(self):
        out = []
        for c in self.conds:
            out.extend(c.atoms())
        return out

    def holds(self, test_text, polarity):
        """is the atom (normalised text, polarity) among the path conditions"""
        return any(norm(t) == test_text and p == polarity for t, p in self.atoms())


def _assigned_names(stmts):
    out = []
    for st in stmts:
        for n in walk_no_nested(st):
            if isinstance(n, ast.Name) and isinstance(n.ctx, (ast.Store, ast.Del)) and n.id not in out:
                out.append(n.id)
    return out


class PathExplosion(AnalysisError):
    pass


class SymExec:
    """focus: optional list of nodes; when given, loops and try statements that do not contain a focus
    node are *summarised* (names assigned inside are havocked, their events are not tracked, no fork)."""
    def __init__(self, func, max_paths=6000, focus=None):
        self.func = func
        self.defs = {}
        self.counter = 0
        self.max_paths = max_paths
        self.keep = None
        if focus is not None:
            self.keep = set()
            for f in focus:
                cur = f
                while cur is not None and cur is not func:
                    self.keep.add(id(cur))
                    cur = getattr(cur, '_parent', None)

    # -- symbols
    def fresh(self, name, kind, **kw):
        self.counter += 1
        sid = f"{name}${self.counter}"
        self.defs[sid] = Def(kind, name, **kw)
        return ast.Name(id=sid, ctx=ast.Load())

    def def_of(self, e):
        if isinstance(e, ast.Name):
            return self.defs.get(e.id)
        return None

    # -- expression classification
    def _pure_call(self, c):
        f = c.func
        if isinstance(f, ast.Name) and f.id in PURE_FUNCS:
            return True
        if isinstance(f, ast.Attribute) and f.attr in PURE_STR_METHODS and \
                isinstance(f.value, ast.Constant) and isinstance(f.value.value, str):
            return True
        return False

    def _impure(self, e):
        for n in ast.walk(e):
            if isinstance(n, ast.Call) and not self._pure_call(n):
                return True
            if isinstance(n, (ast.Await, ast.Yield, ast.YieldFrom, ast.NamedExpr)):
                raise AnalysisError(f"expression outside the symbolic domain: {norm(e)[:80]}")
        return False

    def value(self, expr, st, node, hint='v'):
        e = subst(expr, st.env)
        if isinstance(e, (ast.List, ast.Dict, ast.Set, ast.ListComp, ast.SetComp, ast.DictComp)):
            return self.fresh(hint, 'fresh', node=node, expr=e)
        if isinstance(e, ast.Call) and not self._pure_call(e):
            sym = self.fresh(hint, 'call', node=node, expr=e)
            st.events.append(Ev('call', node, call=e, bound=sym, loops=st.loops))
            return sym
        if self._impure(e):
            sym = self.fresh(hint, 'expr', node=node, expr=e)
            return sym
        return e

    # -- assignment
    def assign(self, target, val, st, node, path=()):
        if isinstance(target, ast.Name):
            st.env[target.id] = val
        elif isinstance(target, (ast.Tuple, ast.List)):
            if any(isinstance(t, ast.Starred) for t in target.elts):
                raise AnalysisError(f"starred assignment outside the symbolic domain: {norm(node)[:80]}")
            if isinstance(val, (ast.Tuple, ast.List)) and len(val.elts) == len(target.elts) and not path:
                for t, v in zip(target.elts, val.elts):
                    self.assign(t, v, st, node)
            else:
                for i, t in enumerate(target.elts):
                    if isinstance(t, ast.Name):
                        st.env[t.id] = self.fresh(t.id, 'unpack', node=node, expr=val, index=path + (i,),
                                                  arity=len(target.elts))
                    else:
                        self.assign(t, val, st, node, path + (i,))
        elif isinstance(target, ast.Attribute):
            st.events.append(Ev('attr', node, obj=subst(target.value, st.env), attr=target.attr, value=val,
                                loops=st.loops))
        elif isinstance(target, ast.Subscript):
            st.events.append(Ev('sub', node, obj=subst(target.value, st.env), key=subst(target.slice, st.env),
                                value=val, loops=st.loops))
        else:
            raise AnalysisError(f"assignment target outside the symbolic domain: {norm(node)[:80]}")

    def havoc(self, st, names, node, pre, phase):
        for n in names:
            st.env[n] = self.fresh(n, 'loop', node=node, pre=pre.get(n), phase=phase)

    # -- statements
    def run(self, until=None):
        """all paths of the function; `until`: a top-level statement of the body after which execution stops"""
        st = State()
        body = self.func.body
        if until is not None:
            idx = [i for i, s in enumerate(body) if s is until]
            if not idx:
                raise AnalysisError("SymExec.run: `until` is not a top-level statement")
            body = body[:idx[0] + 1]
        return self.block(body, st)

    def block(self, stmts, st):
        states = [st]
        for s in stmts:
            nxt = []
            for x in states:
                if x.status != 'run':
                    nxt.append(x)
                else:
                    nxt.extend(self.stmt(s, x))
            states = nxt
            if len(states) > self.max_paths:
                raise PathExplosion(f"path explosion in {self.func.name} (> {self.max_paths} paths)")
        return states

    def stmt(self, s, st):
        if isinstance(s, ast.Assign):
            hint = next((t.id for t in s.targets if isinstance(t, ast.Name)), 'v')
            val = self.value(s.value, st, s, hint)
            for t in s.targets:
                self.assign(t, val, st, s)
            return [st]
        if isinstance(s, ast.AnnAssign):
            if s.value is not None:
                self.assign(s.target, self.value(s.value, st, s), st, s)
            return [st]
        if isinstance(s, ast.AugAssign):
            v = self.value(s.value, st, s)
            if isinstance(s.target, ast.Name):
                cur = st.env.get(s.target.id, ast.Name(id=s.target.id, ctx=ast.Load()))
                st.env[s.target.id] = ast.BinOp(left=cur, op=s.op, right=v)
            elif isinstance(s.target, ast.Attribute):
                st.events.append(Ev('aug', s, obj=subst(s.target.value, st.env), attr=s.target.attr, value=v,
                                    loops=st.loops))
            elif isinstance(s.target, ast.Subscript):
                st.events.append(Ev('aug', s, obj=subst(s.target.value, st.env), key=subst(s.target.slice, st.env),
                                    value=v, loops=st.loops))
            return [st]
        if isinstance(s, ast.Expr):
            if isinstance(s.value, ast.Call):
                st.events.append(Ev('call', s, call=subst(s.value, st.env), loops=st.loops))
            elif not isinstance(s.value, ast.Constant):
                self._impure(s.value)
            return [st]
        if isinstance(s, ast.If):
            t = subst(s.test, st.env)
            a, b = st, st.fork()
            a.add_cond(Cond(t, True, 'if', s))
            b.add_cond(Cond(t, False, 'if', s))
            return self.block(s.body, a) + self.block(s.orelse, b)
        if self.keep is not None and isinstance(s, (ast.While, ast.For, ast.Try)) and id(s) not in self.keep:
            assigned = _assigned_names([s])
            self.havoc(st, assigned, s, {n: st.env.get(n) for n in assigned}, 'exit')
            return [st]
        if isinstance(s, (ast.While, ast.For)):
            return self.loop(s, st)
        if isinstance(s, ast.Return):
            st.status = 'return'
            st.retval = None if s.value is None else subst(s.value, st.env)
            return [st]
        if isinstance(s, ast.Raise):
            st.status = 'raise'
            st.exc = None if s.exc is None else subst(s.exc, st.env)
            return [st]
        if isinstance(s, ast.Assert):
            if isinstance(s.test, ast.Constant) and not s.test.value:
                st.status = 'raise'
                st.exc = ast.Name(id='AssertionError', ctx=ast.Load())
                return [st]
            st.add_cond(Cond(subst(s.test, st.env), True, 'assert', s))
            return [st]
        if isinstance(s, ast.Try):
            out = []
            normal = st.fork()
            for x in self.block(s.body, normal):
                if x.status == 'run':
                    out.extend(self.block(s.orelse, x))
                else:
                    out.append(x)
            assigned = _assigned_names(s.body)
            for h in s.handlers:
                x = st.fork()
                self.havoc(x, assigned, s, {n: st.env.get(n) for n in assigned}, 'except')
                x.add_cond(Cond(subst(h.type, st.env) if h.type is not None else ast.Constant(value=True),
                                    True, 'except', h))
                if h.name:
                    x.env[h.name] = self.fresh(h.name, 'exc', node=h)
                out.extend(self.block(h.body, x))
            if s.finalbody:
                fin = []
                for x in out:
                    keep = x.status
                    x.status = 'run'
                    for y in self.block(s.finalbody, x):
                        if y.status == 'run':
                            y.status = keep
                        fin.append(y)
                out = fin
            return out
        if isinstance(s, ast.With):
            for it in s.items:
                v = self.value(it.context_expr, st, s, 'ctx')
                if it.optional_vars is not None:
                    self.assign(it.optional_vars, v, st, s)
            return self.block(s.body, st)
        if isinstance(s, ast.Delete):
            for t in s.targets:
                if isinstance(t, ast.Name):
                    st.env.pop(t.id, None)
                elif isinstance(t, ast.Attribute):
                    st.events.append(Ev('del', s, obj=subst(t.value, st.env), attr=t.attr, loops=st.loops))
                elif isinstance(t, ast.Subscript):
                    st.events.append(Ev('del', s, obj=subst(t.value, st.env), key=subst(t.slice, st.env),
                                        loops=st.loops))
            return [st]
        if isinstance(s, (ast.Pass, ast.Global, ast.Nonlocal, ast.Import, ast.ImportFrom)):
            return [st]
        if isinstance(s, (ast.FunctionDef, ast.AsyncFunctionDef, ast.ClassDef)):
            st.env[s.name] = self.fresh(s.name, 'def', node=s)
            return [st]
        if isinstance(s, ast.Break):
            st.status = 'break'
            return [st]
        if isinstance(s, ast.Continue):
            st.status = 'continue'
            return [st]
        raise AnalysisError(f"statement outside the symbolic domain: {norm(s)[:80]}")

    def loop(self, s, st):
        assigned = _assigned_names([s])
        pre = {n: st.env.get(n) for n in assigned}
        out = []
        # zero iterations (or: any number of iterations whose events are not tracked)
        skip = st.fork()
        if isinstance(s, ast.While):
            skip.add_cond(Cond(subst(s.test, st.env), False, 'while-exit', s))
        self.havoc(skip, assigned, s, pre, 'exit')
        out.extend(self.block(s.orelse, skip))
        # one generic iteration
        it = st.fork()
        self.havoc(it, assigned, s, pre, 'head')
        it.loops = it.loops + (s,)
        if isinstance(s, ast.While):
            it.add_cond(Cond(subst(s.test, it.env), True, 'while', s))
        else:
            src = subst(s.iter, st.env)
            self._bind_iter(s.target, src, it, s, ())
        for b in self.block(s.body, it):
            if b.status in ('run', 'continue', 'break'):
                was_break = b.status == 'break'
                b.status = 'run'
                b.loops = st.loops
                self.havoc(b, assigned, s, pre, 'exit')
                if was_break:
                    out.append(b)
                else:
                    out.extend(self.block(s.orelse, b))
            else:
                out.append(b)
        return out

    def _bind_iter(self, target, src, st, node, path):
        if isinstance(target, ast.Name):
            st.env[target.id] = self.fresh(target.id, 'iter', node=node, expr=src, index=path)
        elif isinstance(target, (ast.Tuple, ast.List)):
            for i, t in enumerate(target.elts):
                self._bind_iter(t, src, st, node, path + (i,))
        else:
            raise AnalysisError(f"loop target outside the symbolic domain: {norm(node)[:80]}")


# ---------------------------------------------------------------------------
# linear integer terms
def lin(e):
    """(coefficients: leaf text -> int, constant) of an integer expression built from + - and constants,
    or None if it is not linear"""
    if isinstance(e, ast.Constant) and isinstance(e.value, int) and not isinstance(e.value, bool):
        return {}, e.value
    if isinstance(e, ast.UnaryOp) and isinstance(e.op, (ast.USub, ast.UAdd)):
        x = lin(e.operand)
        if x is None:
            return None
        if isinstance(e.op, ast.UAdd):
            return x
        return {k: -v for k, v in x[0].items()}, -x[1]
    if isinstance(e, ast.BinOp) and isinstance(e.op, (ast.Add, ast.Sub)):
        a, b = lin(e.left), lin(e.right)
        if a is None or b is None:
            return None
        sg = 1 if isinstance(e.op, ast.Add) else -1
        co = dict(a[0])
        for k, v in b[0].items():
            co[k] = co.get(k, 0) + sg * v
        return {k: v for k, v in co.items() if v}, a[1] + sg * b[1]
    if isinstance(e, (ast.Name, ast.Attribute, ast.Subscript)):
        return {norm(e): 1}, 0
    return None


def lin_eq(a, b):
    x, y = lin(a), lin(b)
    return x is not None and y is not None and x == y


# ---------------------------------------------------------------------------
# string templates
class Tok:
    """kind 'lit' (text), 'hole' (expr), 'rep' (inner tokens over bound var for each element of seq, sep)"""
    def __init__(self, kind, text=None, expr=None, inner=None, var=None, seq=None, sep=''):
        self.kind, self.text, self.expr, self.inner, self.var, self.seq, self.sep = kind, text, expr, inner, var, seq, sep

    def key(self):
        if self.kind == 'lit':
            return ('lit', self.text)
        if self.kind == 'hole':
            return ('hole', norm(self.expr))
        inner = []
        for t in self.inner:
            if t.kind == 'hole' and isinstance(t.expr, ast.Name) and t.expr.id == self.var:
                inner.append(('elem',))
            else:
                inner.append(t.key())
        return ('rep', tuple(inner), norm(self.seq), self.sep)

    def __repr__(self):
        if self.kind == 'lit':
            return repr(self.text)
        if self.kind == 'hole':
            return '{' + pretty(self.expr) + '}'
        return f"join({self.sep!r}, {self.inner} for {self.var} in {pretty(self.seq)})"


def _merge(toks):
    out = []
    for t in toks:
        if t.kind == 'lit':
            if not t.text:
                continue
            if out and out[-1].kind == 'lit':
                out[-1] = Tok('lit', text=out[-1].text + t.text)
                continue
        out.append(t)
    return out


def _stringy(e):
    return isinstance(e, ast.JoinedStr) or (isinstance(e, ast.Constant) and isinstance(e.value, str)) or \
        (isinstance(e, ast.BinOp) and isinstance(e.op, ast.Add) and (_stringy(e.left) or _stringy(e.right))) or \
        (isinstance(e, ast.Call) and isinstance(e.func, ast.Attribute) and e.func.attr in ('join', 'format')
         and isinstance(e.func.value, ast.Constant) and isinstance(e.func.value.value, str))


def tokens(e):
    """template of a (substituted) string expression"""
    return _merge(_tokens(e))


def _tokens(e):
    if isinstance(e, ast.Constant):
        if isinstance(e.value, str):
            return [Tok('lit', text=e.value)]
        if isinstance(e.value, int) and not isinstance(e.value, bool):
            return [Tok('hole', expr=e)]
        raise AnalysisError(f"constant outside the template domain: {norm(e)}")
    if isinstance(e, ast.JoinedStr):
        out = []
        for v in e.values:
            if isinstance(v, ast.Constant):
                out.append(Tok('lit', text=str(v.value)))
            elif isinstance(v, ast.FormattedValue):
                if v.format_spec is not None or v.conversion not in (-1, 115):
                    raise AnalysisError(f"format spec / conversion outside the template domain: {norm(e)}")
                out.extend(_tokens(v.value) if _stringy(v.value) else [Tok('hole', expr=v.value)])
            else:
                raise AnalysisError(f"f-string part outside the template domain: {norm(e)}")
        return out
    if isinstance(e, ast.BinOp) and isinstance(e.op, ast.Add):
        return _tokens(e.left) + _tokens(e.right)
    if isinstance(e, ast.Call):
        f = e.func
        if isinstance(f, ast.Name) and f.id == 'str' and len(e.args) == 1 and not e.keywords:
            return _tokens(e.args[0]) if _stringy(e.args[0]) else [Tok('hole', expr=e.args[0])]
        if isinstance(f, ast.Attribute) and isinstance(f.value, ast.Constant) and isinstance(f.value.value, str):
            if f.attr == 'join' and len(e.args) == 1 and not e.keywords:
                a = e.args[0]
                if isinstance(a, (ast.ListComp, ast.GeneratorExp)) and len(a.generators) == 1 \
                        and not a.generators[0].ifs and isinstance(a.generators[0].target, ast.Name):
                    g = a.generators[0]
                    return [Tok('rep', inner=_merge(_tokens(a.elt)), var=g.target.id, seq=g.iter, sep=f.value.value)]
                if isinstance(a, (ast.List, ast.Tuple)):
                    out = []
                    for i, x in enumerate(a.elts):
                        if i:
                            out.append(Tok('lit', text=f.value.value))
                        out.extend(_tokens(x))
                    return out
                raise AnalysisError(f"join argument outside the template domain: {norm(e)[:80]}")
            if f.attr == 'format' and not e.keywords:
                out = []
                auto = 0
                for lit_, field, spec, conv in string.Formatter().parse(f.value.value):
                    if lit_:
                        out.append(Tok('lit', text=lit_))
                    if field is None:
                        continue
                    if spec or conv not in (None, 's'):
                        raise AnalysisError(f"format spec outside the template domain: {norm(e)[:80]}")
                    if field == '':
                        k = auto
                        auto += 1
                    elif field.isdigit():
                        k = int(field)
                    else:
                        raise AnalysisError(f"format field outside the template domain: {norm(e)[:80]}")
                    if k >= len(e.args):
                        raise AnalysisError(f"format index out of range: {norm(e)[:80]}")
                    x = e.args[k]
                    out.extend(_tokens(x) if _stringy(x) else [Tok('hole', expr=x)])
                return out
        raise AnalysisError(f"call outside the template domain: {norm(e)[:80]}")
    if isinstance(e, (ast.Name, ast.Attribute, ast.Subscript)):
        return [Tok('hole', expr=e)]
    raise AnalysisError(f"expression outside the template domain: {norm(e)[:80]}")


def tok_keys(toks):
    return [t.key() for t in toks]


class Step:
    """one accessor of an access path. kind: 'attr' (name expr), 'idx*' (sequence expr: one index per
    element, in order), 'idx' (single index expr), 'slice' (lo, hi)"""
    def __init__(self, kind, a=None, b=None):
        self.kind, self.a, self.b = kind, a, b

    def key(self):
        return (self.kind, None if self.a is None else norm(self.a), None if self.b is None else norm(self.b))

    def __repr__(self):
        if self.kind == 'attr':
            return f".<{pretty(self.a)}>"
        if self.kind == 'idx*':
            return f"[i]for i in <{pretty(self.a)}>"
        if self.kind == 'idx':
            return f"[<{pretty(self.a)}>]"
        return f"[<{pretty(self.a)}>:<{pretty(self.b)}>]"


class TemplateError(Exception):
    """the template definitely does not denote an access path (a verdict, not an analysis error)"""


def access_path(toks, root='P'):
    """Parse the accessor tokens (everything after the prefix) as a Python access path applied to a
    placeholder root.  Holes become placeholder identifiers, a repetition is expanded 0..3 times; each
    expansion must parse (ast, mode=eval) to a chain of attribute / subscript steps and all expansions
    must agree on the shape.  Returns [Step]; raises TemplateError with the reason otherwise."""
    holes = {}
    rev = {}

    def ph(expr):
        k = norm(expr)
        if k not in holes:
            holes[k] = f"H{len(holes)}_"
            rev[holes[k]] = expr
        return holes[k]

    reps = [t for t in toks if t.kind == 'rep']
    if len(reps) > 1:
        raise AnalysisError("more than one repetition in a name template")
    shapes = []
    for n in ((0, 1, 2, 3) if reps else (None,)):
        text = root
        for t in toks:
            if t.kind == 'lit':
                text += t.text
            elif t.kind == 'hole':
                text += ph(t.expr)
            else:
                parts = []
                for j in range(n):
                    p = ''
                    for u in t.inner:
                        if u.kind == 'lit':
                            p += u.text
                        elif u.kind == 'hole' and isinstance(u.expr, ast.Name) and u.expr.id == t.var:
                            p += f"E{j}_"
                        elif u.kind == 'hole':
                            p += ph(u.expr)
                        else:
                            raise AnalysisError("nested repetition in a name template")
                    parts.append(p)
                text += t.sep.join(parts)
        try:
            tree = ast.parse(text, mode='eval').body
        except SyntaxError:
            raise TemplateError(f"the name text `{text}` (holes as placeholders) is not a Python expression")
        steps = []
        cur = tree
        while not (isinstance(cur, ast.Name) and cur.id == root):
            if isinstance(cur, ast.Attribute):
                if cur.attr in rev:
                    steps.append(('attr', rev[cur.attr]))
                else:
                    steps.append(('attr-lit', cur.attr))
                cur = cur.value
            elif isinstance(cur, ast.Subscript):
                sl = cur.slice
                if isinstance(sl, ast.Name) and re.fullmatch(r'E\d+_', sl.id):
                    steps.append(('elem', int(sl.id[1:-1])))
                elif isinstance(sl, ast.Name) and sl.id in rev:
                    steps.append(('idx', rev[sl.id]))
                elif isinstance(sl, ast.Slice) and sl.step is None and isinstance(sl.lower, ast.Name) \
                        and isinstance(sl.upper, ast.Name) and sl.lower.id in rev and sl.upper.id in rev:
                    steps.append(('slice', rev[sl.lower.id], rev[sl.upper.id]))
                else:
                    raise TemplateError(f"the name text `{text}` contains a subscript that is not a plain index or "
                                        f"lo:hi slice of the stored key")
                cur = cur.value
            else:
                raise TemplateError(f"the name text `{text}` is not a chain of attribute / subscript accesses "
                                    f"rooted at its container")
        steps.reverse()
        shapes.append((n, steps))
    out = []
    if not reps:
        for s in shapes[0][1]:
            out.append(Step(s[0], *s[1:]) if s[0] != 'attr-lit' else Step('attr', ast.Constant(value=s[1])))
        return out
    # all expansions must be: fixed steps + elem 0..n-1 in order at one position
    base = shapes[0][1]
    pos = None
    for n, steps in shapes:
        elems = [(i, s) for i, s in enumerate(steps) if s[0] == 'elem']
        if [s[1] for _, s in elems] != list(range(n)):
            raise TemplateError(f"the repeated index text lists the indices in the wrong order / number "
                                f"(expansion with {n} indices gives {[s[1] for _, s in elems]})")
        rest = [s for s in steps if s[0] != 'elem']
        if [(_k(s)) for s in rest] != [(_k(s)) for s in base]:
            raise TemplateError("the repeated index text changes the rest of the access path")
        if elems:
            p = elems[0][0]
            if [i for i, _ in elems] != list(range(p, p + n)):
                raise TemplateError("the repeated indices are not contiguous in the access path")
            if pos is None:
                pos = p
            elif pos != p:
                raise TemplateError("the repeated indices move in the access path")
    for i, s in enumerate(base):
        if i == pos:
            out.append(Step('idx*', reps[0].seq))
        out.append(Step(s[0], *s[1:]) if s[0] != 'attr-lit' else Step('attr', ast.Constant(value=s[1])))
    if pos is None or pos >= len(base):
        out.append(Step('idx*', reps[0].seq))
    return out


def _k(s):
    return tuple(norm(x) if isinstance(x, ast.AST) else x for x in s)
