"""Verdict protocol, evidence writer, known-findings handling."""
import hashlib
import json
import os
import time

from .errors import AnalysisError

VERIF = os.path.dirname(os.path.dirname(os.path.abspath(__file__)))
KNOWN = os.path.join(VERIF, 'known_findings.json')


class Finding:
    def __init__(self, rule, file, func, construct, message, line=0):
        self.rule, self.file, self.func = rule, file, func
        self.construct, self.message, self.line = construct, message, line

    @property
    def key(self):
        # rule + construct, never line numbers
        return f"{self.rule}|{self.file}|{self.func}|{self.construct}"

    def as_dict(self):
        return dict(rule=self.rule, file=self.file, function=self.func, construct=self.construct,
                    message=self.message, line=self.line, key=self.key)


class RuleResult:
    """Outcome of one rule on the analysed tree."""
    def __init__(self, rule, clause):
        self.rule = rule
        self.clause = clause          # the clause of the property this rule decides
        self.instances = []           # list of dict(file, function, construct, verdict) -- every obligation checked
        self.findings = []
        self.evaluations = 0          # abstract states / orderings / paths enumerated
        self.observations = []        # non-verdict remarks
        self.floor = 0

    def ok(self, mod, func, construct, nontrivial=True, note=None):
        d = dict(file=mod.rel if hasattr(mod, 'rel') else str(mod), function=func,
                 construct=construct, verdict='holds', nontrivial=nontrivial)
        if note:
            d['note'] = note
        self.instances.append(d)

    def bad(self, mod, func, construct, message, line=0):
        rel = mod.rel if hasattr(mod, 'rel') else str(mod)
        self.instances.append(dict(file=rel, function=func, construct=construct, verdict='VIOLATED',
                                   nontrivial=True, note=message))
        self.findings.append(Finding(self.rule, rel, func, construct, message, line))

    def require_floor(self, n):
        """instance-count floor confirmed by hand on the reference tree: fewer matches means the
        rule has lost its anchors (vacuous pass) -> analysis error, not a verdict."""
        self.floor = n
        # a rule that already has a finding has a definite verdict: the floor only guards against vacuous passes
        if len(self.instances) < n and not self.findings:
            raise AnalysisError(f"{self.rule}: matched {len(self.instances)} instances, floor is {n} "
                                f"(rule lost its anchors; refusing a vacuous pass)")


def load_known():
    if not os.path.isfile(KNOWN):
        return {'findings': [], 'fixed': []}
    with open(KNOWN) as f:
        return json.load(f)


def run_property(pid, rules, repo, tier, explanation, assumptions, extra=None, replay_key=None,
                 write_evidence=True, quiet=False, precomputed=None, t_start=None):
    """Run the rules, print the protocol lines, write evidence, return exit status.
    `precomputed` = (results, analysis_errors) of an earlier call: the rules are not run again (evidence pass)."""
    t0 = t_start or time.time()
    results = []
    analysis_errors = []
    if precomputed is not None:
        results, analysis_errors = list(precomputed[0]), list(precomputed[1])
        rules = []
    for rule in rules:
        try:
            res = rule(repo)
        except AnalysisError as e:
            # one rule that cannot be carried out must not hide what the other rules find
            analysis_errors.append(f"{getattr(rule, '__name__', rule)}: {e}")
            continue
        if isinstance(res, RuleResult):
            res = [res]
        results.extend(res)
    known = [k for k in load_known()['findings'] if k['property'] == pid]
    known_keys = {k['key']: k for k in known}
    violations = []
    known_hit = []
    for r in results:
        for f in r.findings:
            if replay_key and f.key != replay_key:
                continue
            if f.key in known_keys:
                known_hit.append((f, known_keys[f.key]))
            else:
                violations.append(f)
    n_inst = sum(len(r.instances) for r in results)
    distinct = len({(i['file'], i['function'], i['construct'], r.rule) for r in results for i in r.instances
                    if i.get('nontrivial', True)})
    evals = sum(max(r.evaluations, len(r.instances)) for r in results)
    wall = time.time() - t0
    if not quiet:
        for r in results:
            print(f"[{pid}] {r.rule}: {len(r.instances)} instances (floor {r.floor}), "
                  f"{r.evaluations} abstract evaluations, {len(r.findings)} findings -- {r.clause}")
            for o in r.observations:
                print(f"[{pid}]   observation: {o}")
        for f, k in known_hit:
            print(f"KNOWN-FINDING: property={pid} {k.get('what', f.message)} [{f.key}]")
    replay_paths = []
    if violations:
        rdir = os.path.join(VERIF, 'evidence', 'replay')
        os.makedirs(rdir, exist_ok=True)
        for f in violations:
            h = hashlib.sha1(f.key.encode()).hexdigest()[:10]
            p = os.path.join(rdir, f"{pid}-{h}.json")
            with open(p, 'w') as fh:
                json.dump(dict(property=pid, **f.as_dict()), fh, indent=1)
            replay_paths.append(p)
            if not quiet:
                print(f"[{pid}] {f.rule} {f.file}:{f.line} in {f.func}: {f.message}\n"
                      f"[{pid}]   construct: {f.construct}")
                print(f"VIOLATION property={pid} replay={p}")
    if write_evidence:
        samples = []
        for r in results:
            for i in r.instances[:3]:
                samples.append(dict(rule=r.rule, **i))
        cov = dict(
            explanation=explanation,
            evaluations=max(evals, 1),
            distinct_nontrivial=distinct,
            rule="one case = one rule instance (an obligation extracted from the source: a call site, a guard, "
                 "a table row, a path, an abstract valuation set); non-trivial = the instance exercised a "
                 "non-degenerate obligation (not a mere presence test); distinct by (rule, file, function, "
                 "normalised construct)",
            samples=samples[:40],
            obligations=n_inst,
            discharged=n_inst - sum(len(r.findings) for r in results),
            rules=[dict(rule=r.rule, clause=r.clause, instances=len(r.instances), floor=r.floor,
                        abstract_evaluations=r.evaluations, findings=len(r.findings),
                        observations=r.observations) for r in results],
            files_consulted=sorted(set(repo.consulted)),
            source_digest=repo.digest(),
            known_findings_reported=[k['key'] for f, k in known_hit],
            exhaustive=False,
        )
        if extra:
            cov.update(extra)
        ev = dict(property_id=pid, tier=tier, seed=int(os.environ.get('VERIF_SEED', '0') or 0),
                  level='other', coverage=cov, assumptions=assumptions, wall_s=round(time.time() - t0, 3),
                  violations=len(violations))
        os.makedirs(os.path.join(VERIF, 'evidence'), exist_ok=True)
        with open(os.path.join(VERIF, 'evidence', f'{pid}.json'), 'w') as fh:
            json.dump(ev, fh, indent=1)
    run_property.last = (results, analysis_errors)
    if analysis_errors and not violations:
        raise AnalysisError(' || '.join(analysis_errors))
    if analysis_errors and not quiet:
        for e in analysis_errors:
            print(f"[{pid}] (also) ANALYSIS-ERROR in {e}")
    return (1 if violations else 0), results, violations
