"""Finite abstract evaluation of *extracted* expressions and tiny pure blocks.

This is not an interpreter for the code under analysis: it accepts only the
operator vocabulary a rule declares (comparisons / Boolean connectives /
optionally integer arithmetic) over an environment of abstract points that the
rule enumerates exhaustively (all order types of a few endpoints, all Boolean
valuations of a few atoms).  Anything outside the declared vocabulary raises
AnalysisError (exit 2) -- never a silent pass.
"""
import ast
import itertools
import operator

from .astutil import norm
from .errors import AnalysisError

_CMP = {ast.Lt: operator.lt, ast.LtE: operator.le, ast.Gt: operator.gt, ast.GtE: operator.ge,
        ast.Eq: operator.eq, ast.NotEq: operator.ne,
        ast.Is: operator.is_, ast.IsNot: operator.is_not,
        ast.In: lambda a, b: a in b, ast.NotIn: lambda a, b: a not in b}
_BIN = {ast.Add: operator.add, ast.Sub: operator.sub, ast.Mult: operator.mul,
        ast.FloorDiv: operator.floordiv, ast.Mod: operator.mod,
        ast.BitAnd: operator.and_, ast.BitOr: operator.or_, ast.BitXor: operator.xor,
        ast.LShift: operator.lshift, ast.RShift: operator.rshift}


class Obj:
    """abstract record with named fields and a type tag (for isinstance case splits)"""
    def __init__(self, tag, **fields):
        self.tag = tag
        self.fields = fields

    def __repr__(self):
        return f"{self.tag}({self.fields})"


class Returned(Exception):
    def __init__(self, value):
        self.value = value


class Raised(Exception):
    def __init__(self, what):
        self.what = what


class Evaluator:
    def __init__(self, env, arith=False, funcs=None, leaf=None, isinstance_tags=None, call_hook=None, store_hook=None):
        self.env = dict(env)
        self.arith = arith
        self.funcs = funcs or {}
        self.leaf = leaf          # callback(node) -> value or NotImplemented, tried first
        self.tags = isinstance_tags or {}
        self.call_hook = call_hook    # callback(evaluator, call_node) -> value or NotImplemented (effects are recorded by the rule)
        self.store_hook = store_hook  # callback(evaluator, target_node, value) -> True if handled

    def ev(self, e):
        if self.leaf is not None:
            v = self.leaf(e)
            if v is not NotImplemented:
                return v
        m = getattr(self, 'ev_' + type(e).__name__, None)
        if m is None:
            raise AnalysisError(f"expression outside the abstract domain: {type(e).__name__}: {norm(e)}")
        return m(e)

    def ev_Constant(self, e):
        return e.value

    def ev_Name(self, e):
        if e.id in self.env:
            return self.env[e.id]
        if e.id in ('True', 'False', 'None'):
            return {'True': True, 'False': False, 'None': None}[e.id]
        raise AnalysisError(f"unbound name in abstract evaluation: {e.id}")

    def ev_Attribute(self, e):
        key = norm(e)
        if key in self.env:
            return self.env[key]
        base = self.ev(e.value)
        if isinstance(base, Obj):
            if e.attr in base.fields:
                return base.fields[e.attr]
            raise Raised('AttributeError')
        raise AnalysisError(f"attribute outside the abstract domain: {norm(e)}")

    def ev_Compare(self, e):
        left = self.ev(e.left)
        for op, rt in zip(e.ops, e.comparators):
            right = self.ev(rt)
            f = _CMP.get(type(op))
            if f is None:
                raise AnalysisError(f"comparison outside the abstract domain: {norm(e)}")
            if not f(left, right):
                return False
            left = right
        return True

    def ev_BoolOp(self, e):
        if isinstance(e.op, ast.And):
            v = True
            for x in e.values:
                v = self.ev(x)
                if not v:
                    return v
            return v
        v = False
        for x in e.values:
            v = self.ev(x)
            if v:
                return v
        return v

    def ev_UnaryOp(self, e):
        v = self.ev(e.operand)
        if isinstance(e.op, ast.Not):
            return not v
        if isinstance(e.op, ast.USub) and self.arith:
            return -v
        if isinstance(e.op, ast.UAdd) and self.arith:
            return +v
        if isinstance(e.op, ast.Invert) and self.arith:
            return ~v
        raise AnalysisError(f"unary operator outside the abstract domain: {norm(e)}")

    def ev_BinOp(self, e):
        if not self.arith:
            raise AnalysisError(f"arithmetic in a comparison-only evaluation: {norm(e)}")
        f = _BIN.get(type(e.op))
        if f is None:
            raise AnalysisError(f"binary operator outside the abstract domain: {norm(e)}")
        return f(self.ev(e.left), self.ev(e.right))

    def ev_Subscript(self, e):
        if not self.arith or isinstance(e.slice, ast.Slice):
            raise AnalysisError(f"subscript outside the abstract domain: {norm(e)}")
        base = self.ev(e.value)
        if not isinstance(base, (list, tuple, dict, range)):
            raise AnalysisError(f"subscript outside the abstract domain: {norm(e)}")
        try:
            return base[self.ev(e.slice)]
        except IndexError:
            raise Raised('IndexError')
        except KeyError:
            raise Raised('KeyError')

    def ev_IfExp(self, e):
        return self.ev(e.body) if self.ev(e.test) else self.ev(e.orelse)

    def ev_Tuple(self, e):
        return tuple(self.ev(x) for x in e.elts)

    def ev_Call(self, e):
        if self.call_hook is not None:
            v = self.call_hook(self, e)
            if v is not NotImplemented:
                return v
        name = norm(e.func)
        if name in ('all', 'any') and len(e.args) == 1 and isinstance(e.args[0], (ast.GeneratorExp, ast.ListComp)) \
                and len(e.args[0].generators) == 1 and isinstance(e.args[0].generators[0].target, ast.Name):
            g = e.args[0].generators[0]
            it = self.ev(g.iter)
            if not isinstance(it, (list, tuple, set, frozenset, str, dict, range)):
                raise AnalysisError(f"iteration outside the abstract domain: {norm(g.iter)}")
            saved = dict(self.env)
            vals = []
            for v in it:
                self.env[g.target.id] = v
                if all(self.ev(c) for c in g.ifs):
                    vals.append(bool(self.ev(e.args[0].elt)))
            self.env = saved
            return all(vals) if name == 'all' else any(vals)
        if isinstance(e.func, ast.Attribute) and e.func.attr == 'bit_length' and not e.args and self.arith:
            return int(self.ev(e.func.value)).bit_length()
        if name == 'isinstance' and len(e.args) == 2:
            v = self.ev(e.args[0])
            t = norm(e.args[1])
            if t in self.tags:
                return self.tags[t](v)
            raise AnalysisError(f"isinstance on a type outside the abstract domain: {norm(e)}")
        if name in self.funcs:
            return self.funcs[name](*[self.ev(a) for a in e.args])
        raise AnalysisError(f"call outside the abstract domain: {norm(e)}")

    # -- tiny statement blocks (if / return / assign / raise / assert / pass)
    def run(self, stmts):
        """returns ('return', v) / ('raise', what) / ('fall', None)"""
        try:
            self._block(stmts)
        except Returned as r:
            return ('return', r.value)
        except Raised as r:
            return ('raise', r.what)
        return ('fall', None)

    def _block(self, stmts):
        for st in stmts:
            if isinstance(st, ast.If):
                self._block(st.body if self.ev(st.test) else st.orelse)
            elif isinstance(st, ast.Return):
                raise Returned(None if st.value is None else self.ev(st.value))
            elif isinstance(st, ast.Raise):
                raise Raised(norm(st.exc.func) if isinstance(st.exc, ast.Call) else norm(st.exc))
            elif isinstance(st, ast.Assert):
                if not self.ev(st.test):
                    raise Raised('AssertionError')
            elif isinstance(st, ast.Assign) and len(st.targets) == 1 and isinstance(st.targets[0], ast.Name):
                self.env[st.targets[0].id] = self.ev(st.value)
            elif isinstance(st, ast.Assign) and len(st.targets) == 1 and isinstance(st.targets[0], ast.Tuple) \
                    and all(isinstance(t, ast.Name) for t in st.targets[0].elts):
                vals = self.ev(st.value)
                for t, v in zip(st.targets[0].elts, vals):
                    self.env[t.id] = v
            elif isinstance(st, ast.Pass):
                pass
            elif isinstance(st, ast.Expr) and isinstance(st.value, ast.Call) and self.call_hook is not None:
                self.ev(st.value)
            elif isinstance(st, ast.Assign) and len(st.targets) == 1 and self.store_hook is not None and \
                    self.store_hook(self, st.targets[0], self.ev(st.value)):
                pass
            elif isinstance(st, ast.Expr) and isinstance(st.value, ast.Constant):
                pass
            else:
                raise AnalysisError(f"statement outside the abstract domain: {norm(st)[:80]}")


def order_points(n_symbols, lo=0):
    """All assignments of n symbols to integer ranks 0..n_symbols-1 (+lo): realises every weak
    ordering of n symbols (with repetitions)."""
    return itertools.product(range(lo, lo + n_symbols), repeat=n_symbols)


def bool_points(names):
    for vals in itertools.product((False, True), repeat=len(names)):
        yield dict(zip(names, vals))


def only_comparisons(e, atoms_ok=None):
    """True iff the expression is built from and/or/not, comparisons and leaves only
    (so its truth depends only on the order type of its leaves)."""
    if isinstance(e, ast.BoolOp):
        return all(only_comparisons(v, atoms_ok) for v in e.values)
    if isinstance(e, ast.UnaryOp) and isinstance(e.op, ast.Not):
        return only_comparisons(e.operand, atoms_ok)
    if isinstance(e, ast.Compare):
        leaves = [e.left] + list(e.comparators)
        return all(isinstance(l, (ast.Name, ast.Attribute, ast.Constant, ast.Subscript)) or
                   (isinstance(l, ast.UnaryOp) and isinstance(l.operand, ast.Constant)) for l in leaves)
    return False
