"""SeqDom: symbolic evaluation of list construction into a sequence of named segments.

A function that assembles a schedule (list of callables) is evaluated
statement by statement; list-valued locals become sequences of Items:

  Item(kind='seg'|'elem', label=<normalised source of what was added>, cond=<tuple of guards>)

Understood statements: `x = []`, `x = e[::]` / `list(e)` / `e.copy()`, `x.append(e)`,
`x.extend(e)`, `x += e`, `x = x + e`, `if c: ...` (items added under a condition carry it; a conditional `x = [...]` keeps the old items under the negated condition),
`return x`, and calls `self.method(top)` whose callee (resolved through the MRO by the
caller-supplied resolver) is evaluated recursively and inlined.  Any other statement that
touches a tracked list raises AnalysisError.
"""
import ast

from .astutil import norm, walk_no_nested
from .errors import AnalysisError


class Item:
    def __init__(self, kind, label, cond=()):
        self.kind, self.label, self.cond = kind, label, tuple(cond)

    def __repr__(self):
        c = f" if {' and '.join(self.cond)}" if self.cond else ''
        return f"{'*' if self.kind == 'seg' else ''}{self.label}{c}"


class SeqEval:
    def __init__(self, resolver=None, max_depth=4):
        self.resolver = resolver      # callable(call_node) -> FunctionDef or None  (for self.method(...) calls)
        self.max_depth = max_depth
        self.evals = 0

    def eval_function(self, func, depth=0):
        """returns (env, returned) : env maps list-valued local names to sequences, returned = sequence
        of the (single) `return <name>` or None"""
        env = {}
        ret = self._block(func.body, env, (), depth)
        return env, ret

    # ---- expressions denoting sequences
    def seq_of(self, e, env, cond, depth):
        self.evals += 1
        if isinstance(e, ast.List):
            return [Item('elem', norm(x), cond) for x in e.elts]
        if isinstance(e, ast.Name) and e.id in env:
            return [Item(i.kind, i.label, i.cond + tuple(c for c in cond if c not in i.cond)) for i in env[e.id]]
        if isinstance(e, ast.Subscript) and isinstance(e.slice, ast.Slice) and e.slice.lower is None \
                and e.slice.upper is None and (e.slice.step is None):
            return self.seq_of(e.value, env, cond, depth)
        if isinstance(e, ast.Call):
            fn = norm(e.func)
            if fn == 'list' and len(e.args) == 1:
                return self.seq_of(e.args[0], env, cond, depth)
            if isinstance(e.func, ast.Attribute) and e.func.attr == 'copy' and not e.args:
                return self.seq_of(e.func.value, env, cond, depth)
            if self.resolver is not None and depth < self.max_depth:
                callee = self.resolver(e)
                if callee is not None:
                    sub = SeqEval(self.resolver, self.max_depth)
                    _, r = sub.eval_function(callee, depth + 1)
                    self.evals += sub.evals
                    if r is None:
                        raise AnalysisError(f"callee {callee.name} does not return a tracked list")
                    return [Item(i.kind, i.label, tuple(cond) + i.cond) for i in r]
        if isinstance(e, ast.BinOp) and isinstance(e.op, ast.Add):
            return self.seq_of(e.left, env, cond, depth) + self.seq_of(e.right, env, cond, depth)
        # opaque sequence-valued expression: a named segment
        return [Item('seg', norm(e), cond)]

    def _block(self, stmts, env, cond, depth):
        ret = None
        for st in stmts:
            if isinstance(st, ast.Assign) and len(st.targets) == 1 and isinstance(st.targets[0], ast.Name):
                name = st.targets[0].id
                v = st.value
                if isinstance(v, ast.List) or (isinstance(v, ast.Name) and v.id in env) or \
                        (isinstance(v, ast.BinOp) and isinstance(v.op, ast.Add) and self._mentions(v, env)) or \
                        (isinstance(v, (ast.Subscript, ast.Call)) and self._list_like(v, env)):
                    if cond and name in env and env[name]:
                        # x = [...] under a condition: the new contents hold under `cond`, the old ones survive only when it fails
                        newseq = self.seq_of(v, env, cond, depth)
                        neg = f"not ({' and '.join(cond)})"
                        env[name] = [Item(i.kind, i.label, i.cond + (neg,)) for i in env[name]
                                     if not all(c in i.cond for c in cond)] + newseq
                        continue
                    env[name] = self.seq_of(v, env, cond, depth)
                elif name in env:
                    raise AnalysisError(f"tracked list {name} re-assigned from an opaque value: {norm(st)}")
            elif isinstance(st, ast.Assign) and len(st.targets) == 2 and isinstance(st.value, ast.List) \
                    and not st.value.elts:
                # top._sched.schedule_ff = schedule = []
                for t in st.targets:
                    if isinstance(t, ast.Name):
                        env[t.id] = []
            elif isinstance(st, ast.AugAssign) and isinstance(st.target, ast.Name) and st.target.id in env \
                    and isinstance(st.op, ast.Add):
                env[st.target.id] = env[st.target.id] + self.seq_of(st.value, env, cond, depth)
            elif isinstance(st, ast.Expr) and isinstance(st.value, ast.Call) and isinstance(st.value.func, ast.Attribute) \
                    and isinstance(st.value.func.value, ast.Name) and st.value.func.value.id in env:
                name, meth = st.value.func.value.id, st.value.func.attr
                if meth == 'append' and len(st.value.args) == 1:
                    a = st.value.args[0]
                    lab = norm(a)
                    if self.resolver is not None and isinstance(a, ast.Call):
                        pass
                    env[name] = env[name] + [Item('elem', lab, cond)]
                elif meth == 'extend' and len(st.value.args) == 1:
                    env[name] = env[name] + self.seq_of(st.value.args[0], env, cond, depth)
                elif meth == 'insert' and len(st.value.args) == 2 and norm(st.value.args[0]) == '0':
                    env[name] = [Item('elem', norm(st.value.args[1]), cond)] + env[name]
                else:
                    raise AnalysisError(f"list operation outside SeqDom: {norm(st)}")
            elif isinstance(st, ast.If):
                c = norm(st.test)
                r1 = self._block(st.body, env, cond + (c,), depth)
                r2 = self._block(st.orelse, env, cond + (f"not ({c})",), depth)
                if r1 is not None or r2 is not None:
                    raise AnalysisError("conditional return in a schedule builder")
            elif isinstance(st, ast.Return):
                if st.value is None:
                    continue
                if isinstance(st.value, ast.Name) and st.value.id in env:
                    ret = list(env[st.value.id])
                else:
                    ret = self.seq_of(st.value, env, cond, depth)
            elif isinstance(st, (ast.For, ast.While, ast.With, ast.Try)):
                touched = {n.id for n in ast.walk(st) if isinstance(n, ast.Name)} & set(env)
                stores = [n for n in ast.walk(st) if isinstance(n, ast.Call) and isinstance(n.func, ast.Attribute)
                          and isinstance(n.func.value, ast.Name) and n.func.value.id in env
                          and n.func.attr in ('append', 'extend', 'insert', 'pop', 'remove', 'clear', 'sort', 'reverse')]
                if stores:
                    raise AnalysisError(f"tracked list modified inside a loop/with/try: {norm(stores[0])}")
            else:
                # any other statement must not mutate a tracked list
                for n in walk_no_nested(st):
                    if isinstance(n, ast.Call) and isinstance(n.func, ast.Attribute) and isinstance(n.func.value, ast.Name) \
                            and n.func.value.id in env and n.func.attr in ('pop', 'remove', 'clear', 'sort', 'reverse', 'insert'):
                        raise AnalysisError(f"list operation outside SeqDom: {norm(n)}")
        return ret

    def _mentions(self, e, env):
        return any(isinstance(n, ast.Name) and n.id in env for n in ast.walk(e))

    def _list_like(self, v, env):
        if isinstance(v, ast.Subscript):
            return isinstance(v.slice, ast.Slice)
        if isinstance(v, ast.Call):
            fn = norm(v.func)
            return fn == 'list' or (isinstance(v.func, ast.Attribute) and v.func.attr == 'copy')
        return False


def index_of(seq, pred):
    return [i for i, it in enumerate(seq) if pred(it)]
