class AnalysisError(Exception):
    """The analysis could not be carried out (anchor vanished, idiom outside
    the abstract domain, instance floor not met).  Exit status 2, never a
    verdict."""
