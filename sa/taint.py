"""Name-based taint of one function (including its nested functions): which local names may hold (parts of) a shared
structure, and which statements store into / mutate it.  Flow-insensitive, alias by assignment, iteration, unpacking,
subscripting, attribute access and arguments of nested functions; sound for "no mutation reaches the structure" in the
idioms the repository uses (no exec, no globals(), no setattr on the tainted objects)."""
import ast

from .astutil import norm

MUTATING = {'append', 'extend', 'insert', 'pop', 'remove', 'clear', 'sort', 'reverse', 'update', 'add', 'discard',
            'setdefault', 'popitem', '__setitem__', 'difference_update', 'intersection_update', 'symmetric_difference_update',
            '__ior__', '__iand__', '__isub__'}
COPYING = {'copy', 'deepcopy', 'list', 'set', 'dict', 'tuple', 'sorted', 'frozenset', 'clone_deepcopy'}


def mutations_through(top, seed_names=(), source_pred=None):
    """-> (tainted names, [(node, text)])"""
    funcs = [n for n in ast.walk(top) if isinstance(n, (ast.FunctionDef, ast.Lambda))]
    byname = {f.name: f for f in funcs if isinstance(f, ast.FunctionDef) and f is not top}
    tainted = set(seed_names)

    def is_tainted(e):
        if source_pred is not None and source_pred(e):
            return True
        while isinstance(e, (ast.Subscript, ast.Attribute, ast.Starred)):
            e = e.value
            if source_pred is not None and source_pred(e):
                return True
        if isinstance(e, ast.Call) and norm(e.func) in ('enumerate', 'reversed', 'iter', 'zip') and e.args:
            return any(is_tainted(a) for a in e.args)
        return isinstance(e, ast.Name) and e.id in tainted

    def names_of(t):
        return [n.id for n in ast.walk(t) if isinstance(n, ast.Name) and isinstance(n.ctx, ast.Store)]
    changed = True
    while changed:
        changed = False
        for n in ast.walk(top):
            new = []
            if isinstance(n, (ast.For, ast.comprehension)) and is_tainted(n.iter):
                new = names_of(n.target)
            elif isinstance(n, ast.Assign) and (is_tainted(n.value) or (isinstance(n.value, ast.Tuple) and any(is_tainted(x) for x in n.value.elts))):
                for t in n.targets:
                    if isinstance(t, (ast.Name, ast.Tuple, ast.List)):
                        new += names_of(t)
            elif isinstance(n, ast.Call) and isinstance(n.func, ast.Name) and n.func.id in byname:
                params = [a.arg for a in byname[n.func.id].args.args]
                for k, a in enumerate(n.args):
                    if k < len(params) and is_tainted(a):
                        new.append(params[k])
                for kw in n.keywords:
                    if kw.arg in params and is_tainted(kw.value):
                        new.append(kw.arg)
            for x in new:
                if x not in tainted:
                    tainted.add(x)
                    changed = True
    out = []
    for n in ast.walk(top):
        if isinstance(n, (ast.Assign, ast.AugAssign, ast.AnnAssign)):
            tg = n.targets if isinstance(n, ast.Assign) else [n.target]
            for t in tg:
                for sub in ([t] if not isinstance(t, (ast.Tuple, ast.List)) else t.elts):
                    if isinstance(sub, ast.Subscript) and is_tainted(sub.value):
                        out.append((sub, f"`{norm(n)[:90]}` stores into the shared structure"))
                    if isinstance(n, ast.AugAssign) and isinstance(sub, ast.Name) and sub.id in tainted and \
                            isinstance(n.op, (ast.BitOr, ast.BitAnd, ast.Sub, ast.Add)):
                        out.append((sub, f"`{norm(n)[:90]}` updates the shared structure in place"))
        elif isinstance(n, ast.Delete):
            for t in n.targets:
                if isinstance(t, ast.Subscript) and is_tainted(t.value):
                    out.append((t, f"`{norm(n)}` deletes from the shared structure"))
        elif isinstance(n, ast.Call) and isinstance(n.func, ast.Attribute) and n.func.attr in MUTATING and is_tainted(n.func.value):
            out.append((n, f"`{norm(n)[:90]}` mutates the shared structure"))
    return tainted, out
