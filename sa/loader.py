"""Source loader / resolver for the static checks.

Everything is read from the *current working tree* of the repository root
(default /repo) on every run; nothing is imported or executed.  An optional
``overlay`` (relative path -> source text) replaces files in memory; the
self-test uses it to analyse mutated variants without touching the disk.
"""
import ast
import os
import hashlib

from .errors import AnalysisError


def _set_parents(tree):
    tree._parent = None
    for node in ast.walk(tree):
        for ch in ast.iter_child_nodes(node):
            ch._parent = node


class Module:
    def __init__(self, repo, rel, src):
        self.repo = repo
        self.rel = rel
        self.src = src
        try:
            self.tree = ast.parse(src, filename=rel)
        except SyntaxError as e:
            raise AnalysisError(f"cannot parse {rel}: {e}")
        _set_parents(self.tree)
        self.classes = {}
        self.functions = {}
        self.assigns = {}      # module-level simple-name assignments: name -> value node (last)
        self.imports = {}      # local name -> (module dotted, original name or None)
        self.star_imports = [] # dotted module names
        for st in self._toplevel(self.tree.body):
            if isinstance(st, ast.ClassDef):
                self.classes[st.name] = st
            elif isinstance(st, (ast.FunctionDef, ast.AsyncFunctionDef)):
                self.functions[st.name] = st
            elif isinstance(st, ast.Assign):
                for t in st.targets:
                    if isinstance(t, ast.Name):
                        self.assigns[t.id] = st.value
            elif isinstance(st, ast.Import):
                for a in st.names:
                    self.imports[(a.asname or a.name).split('.')[0]] = (a.name, None)
            elif isinstance(st, ast.ImportFrom):
                dotted = self._abs_module(st.module, st.level)
                for a in st.names:
                    if a.name == '*':
                        self.star_imports.append(dotted)
                    else:
                        self.imports[a.asname or a.name] = (dotted, a.name)

    def _toplevel(self, body):
        # descend into top-level if/try (version switches) but not into defs
        for st in body:
            yield st
            if isinstance(st, ast.If):
                yield from self._toplevel(st.body)
                yield from self._toplevel(st.orelse)
            elif isinstance(st, ast.Try):
                yield from self._toplevel(st.body)
                for h in st.handlers:
                    yield from self._toplevel(h.body)
                yield from self._toplevel(st.orelse)

    def _abs_module(self, module, level):
        if not level:
            return module or ''
        parts = self.rel[:-3].split('/')
        if parts[-1] == '__init__':
            parts = parts[:-1]
            level -= 1
        else:
            parts = parts[:-1]
            level -= 1
        if level:
            parts = parts[:-level]
        if module:
            parts += module.split('.')
        return '.'.join(parts)

    # ------------------------------------------------------------------
    def get_class(self, name):
        c = self.classes.get(name)
        if c is None:
            raise AnalysisError(f"anchor vanished: class {name} not found in {self.rel}")
        return c

    def get_func(self, qual):
        """qual: 'func', 'Class.method', 'Class.method.inner' ..."""
        parts = qual.split('.')
        scope_body = self.tree.body
        node = None
        for i, p in enumerate(parts):
            found = None
            for st in self._defs_in(scope_body):
                if isinstance(st, (ast.ClassDef, ast.FunctionDef, ast.AsyncFunctionDef)) and st.name == p:
                    found = st
            if found is None:
                raise AnalysisError(f"anchor vanished: {qual} not found in {self.rel}")
            node = found
            scope_body = found.body
        return node

    def has_func(self, qual):
        try:
            self.get_func(qual)
            return True
        except AnalysisError:
            return False

    def _defs_in(self, body):
        """defs directly in this body, looking through if/try/with/for nesting (not into other defs)"""
        for st in body:
            if isinstance(st, (ast.ClassDef, ast.FunctionDef, ast.AsyncFunctionDef)):
                yield st
            else:
                for fld in ('body', 'orelse', 'finalbody'):
                    sub = getattr(st, fld, None)
                    if isinstance(sub, list):
                        yield from self._defs_in(sub)
                for h in getattr(st, 'handlers', []) or []:
                    yield from self._defs_in(h.body)

    def methods(self, clsname):
        c = self.get_class(clsname)
        return {st.name: st for st in self._defs_in(c.body) if isinstance(st, ast.FunctionDef)}


class Repo:
    def __init__(self, root='/repo', overlay=None):
        self.root = root
        self.overlay = dict(overlay or {})
        self._mods = {}
        self.consulted = []

    def exists(self, rel):
        return rel in self.overlay or os.path.isfile(os.path.join(self.root, rel))

    def src(self, rel):
        if rel in self.overlay:
            return self.overlay[rel]
        p = os.path.join(self.root, rel)
        if not os.path.isfile(p):
            raise AnalysisError(f"anchor vanished: file {rel} not found under {self.root}")
        with open(p, encoding='utf-8') as f:
            return f.read()

    def mod(self, rel):
        m = self._mods.get(rel)
        if m is None:
            m = Module(self, rel, self.src(rel))
            self._mods[rel] = m
            self.consulted.append(rel)
        return m

    def digest(self):
        h = hashlib.sha256()
        for rel in sorted(set(self.consulted)):
            h.update(rel.encode())
            h.update(self._mods[rel].src.encode())
        return h.hexdigest()[:16]

    def py_files(self, sub, include_tests=False):
        out = []
        base = os.path.join(self.root, sub)
        for dp, dn, fn in os.walk(base):
            dn[:] = sorted(d for d in dn if d != '__pycache__')
            for f in sorted(fn):
                if not f.endswith('.py'):
                    continue
                rel = os.path.relpath(os.path.join(dp, f), self.root)
                if not include_tests and ('/test/' in '/' + rel or rel.endswith('_test.py')):
                    continue
                out.append(rel)
        for rel in self.overlay:
            if rel.startswith(sub) and rel not in out:
                out.append(rel)
        return sorted(out)

    # ------------------------------------------------------------------
    # name / class resolution
    def dotted_to_rel(self, dotted):
        base = dotted.replace('.', '/')
        for cand in (base + '.py', base + '/__init__.py'):
            if self.exists(cand):
                return cand
        return None

    def resolve(self, module, name, _seen=None):
        """Resolve a simple name used in `module` to (Module, node) where node is a
        ClassDef / FunctionDef / value expression; returns None if it leaves the repo."""
        _seen = _seen or set()
        key = (module.rel, name)
        if key in _seen:
            return None
        _seen.add(key)
        if name in module.classes:
            return module, module.classes[name]
        if name in module.functions:
            return module, module.functions[name]
        if name in module.assigns:
            return module, module.assigns[name]
        if name in module.imports:
            dotted, orig = module.imports[name]
            rel = self.dotted_to_rel(dotted)
            if rel is None:
                return None
            target = self.mod(rel)
            if orig is None:
                return target, target.tree
            r = self.resolve(target, orig, _seen)
            if r is None:
                # maybe a submodule
                sub = self.dotted_to_rel(dotted + '.' + orig)
                if sub:
                    t = self.mod(sub)
                    return t, t.tree
            return r
        for dotted in reversed(module.star_imports):   # a later star import shadows an earlier one
            rel = self.dotted_to_rel(dotted)
            if rel is None:
                continue
            r = self.resolve(self.mod(rel), name, _seen)
            if r is not None:
                return r
        return None

    def resolve_class(self, module, expr):
        """expr: ast.Name or ast.Attribute naming a class -> (Module, ClassDef) or None"""
        if isinstance(expr, ast.Name):
            r = self.resolve(module, expr.id)
            if r and isinstance(r[1], ast.ClassDef):
                return r
            return None
        if isinstance(expr, ast.Attribute) and isinstance(expr.value, ast.Name):
            r = self.resolve(module, expr.value.id)
            if r and isinstance(r[1], ast.Module):
                r2 = self.resolve(r[0], expr.attr)
                if r2 and isinstance(r2[1], ast.ClassDef):
                    return r2
        return None

    def mro(self, module, cls):
        """C3 linearisation over classes resolvable inside the repo.
        Returns list of (Module, ClassDef); external bases are skipped."""
        def lin(m, c, stack):
            key = (m.rel, c.name)
            if key in stack:
                raise AnalysisError(f"cyclic class hierarchy at {key}")
            bases = []
            for b in c.bases:
                r = self.resolve_class(m, b)
                if r is not None:
                    bases.append(r)
            seqs = [lin(bm, bc, stack | {key}) for bm, bc in bases] + [list(bases)]
            res = [(m, c)]
            seqs = [list(s) for s in seqs if s]
            while seqs:
                for s in seqs:
                    head = s[0]
                    hk = (head[0].rel, head[1].name)
                    if not any(hk in [(x[0].rel, x[1].name) for x in t[1:]] for t in seqs):
                        break
                else:
                    raise AnalysisError(f"inconsistent MRO for {c.name}")
                res.append(head)
                for s in seqs:
                    if (s[0][0].rel, s[0][1].name) == hk:
                        del s[0]
                seqs = [s for s in seqs if s]
            return res
        return lin(module, cls, frozenset())

    def lookup_method(self, module, cls, name, after=None):
        """first definition of `name` in the MRO of cls (optionally strictly after class `after`)"""
        chain = self.mro(module, cls)
        started = after is None
        for m, c in chain:
            if not started:
                if c is after:
                    started = True
                continue
            for st in m._defs_in(c.body):
                if isinstance(st, ast.FunctionDef) and st.name == name:
                    return m, c, st
        return None
