"""Helpers of the C18 / C19 rule modules (new file; nothing else in sa/ depends on it).

* ``BV``      -- a fixed-width unsigned bit-vector value with the operator semantics of pymtl3 ``Bits``
                 that the analysed fragments use (masked + - & | ^ ~, unsigned comparisons, ``.int()`` /
                 ``.uint()``, bit / slice selection).  It is the *abstract value* over which small extracted
                 expressions (AMO lambdas, arbiter update-block equations) are enumerated exhaustively.
* ``SB``      -- a symbolic little-endian byte sequence (each byte an opaque term): the domain in which the
                 byte-array read / write helpers are evaluated, so that a result holds for every byte value.
* ``Interp``  -- ``sa.minieval.Evaluator`` extended with subscripts, lambdas / closures, whitelisted method
                 calls and a tiny statement interpreter (assign, augmented assign, if, while, for-range,
                 return, assert, expression statements) with a step budget.  Anything outside this vocabulary
                 raises ``AnalysisError`` -- never a silent pass.
"""
import ast

from .astutil import norm
from .errors import AnalysisError
from .minieval import Evaluator, Raised, Returned, _BIN


# ---------------------------------------------------------------------------
class BV:
    """w-bit unsigned value with Bits-like operators (width mismatches / non-fitting ints raise, as in pymtl3)."""
    __slots__ = ('w', 'u')

    def __init__(self, w, u):
        if not isinstance(w, int) or w < 1:
            raise Raised('ValueError: width')
        self.w = w
        self.u = int(u) & ((1 << w) - 1)

    def _o(self, o):
        if isinstance(o, BV):
            if o.w != self.w:
                raise Raised(f'ValueError: width mismatch {self.w} vs {o.w}')
            return o.u
        if isinstance(o, bool):
            o = int(o)
        if isinstance(o, int):
            if o < 0 or o >= (1 << self.w):
                raise Raised(f'ValueError: int {o} does not fit {self.w} bits')
            return o
        raise AnalysisError(f"operand outside the bit-vector domain: {o!r}")

    def _amt(self, o):
        if isinstance(o, BV):
            return o.u
        if isinstance(o, int) and o >= 0:
            return int(o)
        raise AnalysisError(f"shift amount outside the bit-vector domain: {o!r}")

    def __add__(self, o): return BV(self.w, self.u + self._o(o))
    def __sub__(self, o): return BV(self.w, self.u - self._o(o))
    def __mul__(self, o): return BV(self.w, self.u * self._o(o))
    def __and__(self, o): return BV(self.w, self.u & self._o(o))
    def __or__(self, o): return BV(self.w, self.u | self._o(o))
    def __xor__(self, o): return BV(self.w, self.u ^ self._o(o))
    def __radd__(self, o): return BV(self.w, self._o(o) + self.u)
    def __rsub__(self, o): return BV(self.w, self._o(o) - self.u)
    def __rand__(self, o): return BV(self.w, self._o(o) & self.u)
    def __ror__(self, o): return BV(self.w, self._o(o) | self.u)
    def __rxor__(self, o): return BV(self.w, self._o(o) ^ self.u)
    def __invert__(self): return BV(self.w, ~self.u)
    def __lshift__(self, o): return BV(self.w, self.u << min(self._amt(o), self.w))
    def __rshift__(self, o): return BV(self.w, self.u >> self._amt(o))
    def __lt__(self, o): return BV(1, self.u < self._o(o))
    def __le__(self, o): return BV(1, self.u <= self._o(o))
    def __gt__(self, o): return BV(1, self.u > self._o(o))
    def __ge__(self, o): return BV(1, self.u >= self._o(o))

    def __eq__(self, o):
        if isinstance(o, (BV, int)):
            return BV(1, self.u == self._o(o))
        return BV(1, 0)

    def __ne__(self, o):
        if isinstance(o, (BV, int)):
            return BV(1, self.u != self._o(o))
        return BV(1, 1)

    def __hash__(self): return hash((self.w, self.u))
    def __bool__(self): return self.u != 0
    def __int__(self): return self.u
    def __index__(self): return self.u
    def uint(self): return self.u

    def int(self):
        return self.u - (1 << self.w) if self.u >> (self.w - 1) else self.u

    def __getitem__(self, idx):
        if isinstance(idx, slice):
            if idx.step is not None:
                raise Raised('IndexError: step')
            lo, hi = idx.start, idx.stop
            lo = 0 if lo is None else int(lo)
            hi = self.w if hi is None else int(hi)
            if not (0 <= lo < hi <= self.w):
                raise Raised(f'IndexError: slice [{lo}:{hi}] of a {self.w}-bit value')
            return BV(hi - lo, self.u >> lo)
        i = int(idx)
        if not (0 <= i < self.w):
            raise Raised(f'IndexError: bit {i} of a {self.w}-bit value')
        return BV(1, self.u >> i)

    def replaced(self, idx, v):
        """value with bit / slice idx replaced by v (width must match for BV operands, ints must fit)"""
        if isinstance(idx, slice):
            if idx.step is not None:
                raise Raised('IndexError: step')
            lo = 0 if idx.start is None else int(idx.start)
            hi = self.w if idx.stop is None else int(idx.stop)
        else:
            lo = int(idx)
            hi = lo + 1
        if not (0 <= lo < hi <= self.w):
            raise Raised(f'IndexError: [{lo}:{hi}] of a {self.w}-bit value')
        val = BV(hi - lo, 0)._o(v)
        mask = ((1 << (hi - lo)) - 1) << lo
        return BV(self.w, (self.u & ~mask) | (val << lo))

    def __repr__(self):
        return f"b{self.w}({self.u:#x})"


# ---------------------------------------------------------------------------
def _pow256(n):
    """k if n == 256**k (k>=0) else None"""
    if isinstance(n, SB):
        n = n.as_int()
    if not isinstance(n, int) or n <= 0:
        return None
    k = 0
    while n > 1:
        if n % 256:
            return None
        n //= 256
        k += 1
    return k


class SB:
    """Symbolic non-negative integer as a little-endian tuple of byte terms (0 = the zero byte; any other
    hashable term stands for an arbitrary byte).  Operations that are not byte-granular produce an opaque
    term, which can never compare equal to the expected symbol (=> the rule reports what it saw)."""
    __slots__ = ('b',)

    def __init__(self, b=()):
        b = list(b)
        while b and b[-1] == 0:
            b.pop()
        self.b = tuple(b)

    @staticmethod
    def of(v):
        if isinstance(v, SB):
            return v
        if isinstance(v, bool):
            v = int(v)
        if isinstance(v, int) and v >= 0:
            out = []
            while v:
                out.append(v & 255)
                v >>= 8
            return SB(out)
        raise AnalysisError(f"value outside the symbolic byte domain: {v!r}")

    def as_int(self):
        if all(isinstance(x, int) for x in self.b):
            return sum(x << (8 * i) for i, x in enumerate(self.b))
        return None

    def _opaque(self, op, other):
        return SB([(op, self.b, other.b if isinstance(other, SB) else other)])

    def __lshift__(self, k):
        k = k.as_int() if isinstance(k, SB) else k
        if isinstance(k, int) and k >= 0 and k % 8 == 0:
            return SB((0,) * (k // 8) + self.b)
        return self._opaque('<<', k)

    def __rshift__(self, k):
        k = k.as_int() if isinstance(k, SB) else k
        if isinstance(k, int) and k >= 0 and k % 8 == 0:
            return SB(self.b[k // 8:])
        return self._opaque('>>', k)

    def __and__(self, m):
        mi = m.as_int() if isinstance(m, SB) else m
        if isinstance(mi, bool):
            mi = int(mi)
        if isinstance(mi, int) and mi >= 0:
            out = []
            for j, t in enumerate(self.b):
                mj = (mi >> (8 * j)) & 255
                if mj == 255 or t == 0:
                    out.append(t)
                elif mj == 0:
                    out.append(0)
                elif isinstance(t, int):
                    out.append(t & mj)
                else:
                    out.append(('&', t, mj))
            return SB(out)
        return self._opaque('&', m)

    __rand__ = __and__

    def _merge(self, o, op):
        o = SB.of(o)
        n = max(len(self.b), len(o.b))
        a = self.b + (0,) * (n - len(self.b))
        c = o.b + (0,) * (n - len(o.b))
        out = []
        for x, y in zip(a, c):
            if x == 0:
                out.append(y)
            elif y == 0:
                out.append(x)
            elif isinstance(x, int) and isinstance(y, int) and op == '|':
                out.append(x | y)
            else:
                out.append((op, x, y))
        return SB(out)

    def __add__(self, o): return self._merge(o, '+')
    def __radd__(self, o): return self._merge(o, '+')
    def __or__(self, o): return self._merge(o, '|')
    def __ror__(self, o): return self._merge(o, '|')

    def __mul__(self, o):
        k = _pow256(o)
        return self << (8 * k) if k is not None else self._opaque('*', o)

    __rmul__ = __mul__

    def __floordiv__(self, o):
        k = _pow256(o)
        return self >> (8 * k) if k is not None else self._opaque('//', o)

    def __mod__(self, o):
        k = _pow256(o)
        return self & ((1 << (8 * k)) - 1) if k is not None else self._opaque('%', o)

    ABSTRACT_METHODS = ('to_bytes',)

    def to_bytes(self, length, byteorder='big'):
        """int.to_bytes: raises OverflowError when the value needs more than `length` bytes"""
        n = _addr(length)
        if byteorder not in ('little', 'big'):
            raise Raised('ValueError: byteorder')
        if len(self.b) > n:
            raise Raised(f"OverflowError: int too big to convert (a value with {len(self.b)} significant bytes into {n} byte(s))")
        out = list(self.b) + [0] * (n - len(self.b))
        return ByteSeq(out if byteorder == 'little' else out[::-1])

    def __eq__(self, o):
        return isinstance(o, SB) and self.b == o.b

    def __ne__(self, o):
        return not self.__eq__(o)

    def __hash__(self):
        return hash(self.b)

    def __bool__(self):
        raise AnalysisError("truth value of a symbolic byte sequence is not decided")

    def __repr__(self):
        return 'SB[' + ','.join(str(x) for x in self.b) + ']'


class ByteSeq(list):
    """a bytes object whose elements are byte terms"""


def int_from_bytes(seq, byteorder='big'):
    if not isinstance(seq, (list, tuple)):
        raise AnalysisError("int.from_bytes of a value outside the symbolic byte domain")
    if byteorder not in ('little', 'big'):
        raise Raised('ValueError: byteorder')
    return SB(list(seq) if byteorder == 'little' else list(seq)[::-1])


class SymMem:
    """abstract byte array: address -> byte term; loads of unknown cells give a fresh term; stores are logged"""
    def __init__(self, init=None, size=None):
        self.cells = dict(init or {})
        self.stores = []          # (addr, SB value)
        self.size = size          # len(arr); None = unbounded (len() is then outside the domain)

    def __len__(self):
        if self.size is None:
            raise AnalysisError("len() of a byte array of unspecified size")
        return self.size

    def _inside(self, a):
        if a < 0 or (self.size is not None and a >= self.size):
            raise Raised(f"IndexError: byte {a} of an array of {self.size} bytes")

    ABSTRACT_METHODS = ()

    def _range(self, idx):
        if idx.step is not None or idx.start is None or idx.stop is None:
            raise AnalysisError("byte-array slice outside the abstract domain")
        return _addr(idx.start), _addr(idx.stop)

    def load(self, addr):
        if isinstance(addr, slice):
            lo, hi = self._range(addr)
            return ByteSeq(self.cells.get(a, ('cell', a)) for a in range(lo, max(lo, hi)))
        a = _addr(addr)
        self._inside(a)
        return SB([self.cells.get(a, ('cell', a))])

    def store(self, addr, value):
        if isinstance(addr, slice):
            lo, hi = self._range(addr)
            if not isinstance(value, (list, tuple)):
                raise AnalysisError("slice store of a value outside the symbolic byte domain")
            if len(value) != max(0, hi - lo):
                raise Raised(f"the slice [{lo}:{hi}] is assigned {len(value)} byte(s): the bytearray is resized, all later bytes move")
            for k, t in enumerate(value):
                self.stores.append((lo + k, SB([t])))
                self.cells[lo + k] = t
            return
        a = _addr(addr)
        self._inside(a)
        v = SB.of(value)
        self.stores.append((a, v))
        if len(v.b) > 1:
            raise Raised(f"ValueError: byte must be in range(0, 256): cell {a} <- {v!r}")
        self.cells[a] = v.b[0] if v.b else 0


class MemView(SymMem):
    """memoryview(arr) / memoryview(arr).cast(fmt): item i of a view with itemsize k is the little-endian integer made of bytes
    k*i .. k*i+k-1 of the underlying image (native little-endian host, standard sizes B/H/I/Q)"""
    ABSTRACT_METHODS = ('cast',)
    SIZES = {'B': 1, 'b': 1, 'H': 2, 'I': 4, 'L': 8, 'Q': 8}

    def __init__(self, mem, size=1):
        if not isinstance(mem, SymMem) or isinstance(mem, MemView):
            raise AnalysisError("memoryview of a value outside the abstract domain")
        self.mem, self.isz = mem, size
        self.size = None if mem.size is None else mem.size // size

    def cast(self, fmt, *shape):
        if shape or fmt not in self.SIZES or fmt == 'b':
            raise AnalysisError(f"memoryview.cast({fmt!r}) outside the abstract domain")
        return MemView(self.mem, self.SIZES[fmt])

    def load(self, idx):
        if isinstance(idx, slice):
            raise AnalysisError("memoryview slice outside the abstract domain")
        i = _addr(idx)
        out = []
        for a in range(i * self.isz, (i + 1) * self.isz):
            self.mem._inside(a)
            out.append(self.mem.cells.get(a, ('cell', a)))
        return SB(out)

    def store(self, idx, value):
        if isinstance(idx, slice):
            raise AnalysisError("memoryview slice outside the abstract domain")
        i = _addr(idx)
        v = SB.of(value)
        if len(v.b) > self.isz:
            raise Raised(f"ValueError: memoryview item of {self.isz} byte(s) <- a value with {len(v.b)} significant bytes")
        for k in range(self.isz):
            self.mem.store(i * self.isz + k, SB([v.b[k]]) if k < len(v.b) else 0)


def _addr(a):
    if isinstance(a, BV):
        a = a.u
    if isinstance(a, SB):
        a = a.as_int()
    if isinstance(a, bool) or not isinstance(a, int):
        raise AnalysisError(f"address outside the abstract domain: {a!r}")
    return a


# ---------------------------------------------------------------------------
def cnorm(node):
    """norm() cached on the node (the trees are never modified after parsing)"""
    try:
        return node._cn
    except AttributeError:
        node._cn = s = norm(node)
        return s


class _Break(Exception):
    pass


class _Continue(Exception):
    pass


class Closure:
    def __init__(self, node, env):
        self.node, self.env = node, env


class Interp(Evaluator):
    """Evaluator + subscripts, closures, whitelisted methods and a small statement interpreter."""
    METHODS = {'int', 'uint'}          # methods of abstract values that may be called
    MAX_STEPS = 50000

    def __init__(self, env, funcs=None, leaf=None):
        super().__init__(env, arith=True, funcs=funcs, leaf=leaf)
        self.steps = 0

    # -- expressions
    def ev_Slice(self, e):
        return slice(None if e.lower is None else self.ev(e.lower),
                     None if e.upper is None else self.ev(e.upper),
                     None if e.step is None else self.ev(e.step))

    def ev_Attribute(self, e):
        key = cnorm(e)
        if key in self.env:
            return self.env[key]
        base = self.ev(e.value)
        from .minieval import Obj
        if isinstance(base, BV) and e.attr == 'nbits':
            return base.w
        if isinstance(base, Obj):
            if e.attr in base.fields:
                return base.fields[e.attr]
            raise Raised('AttributeError')
        raise AnalysisError(f"attribute outside the abstract domain: {key}")

    def ev_Subscript(self, e):
        if self.env:
            key = cnorm(e)
            if key in self.env:
                return self.env[key]
        base = self.ev(e.value)
        idx = self.ev(e.slice)
        return self.getitem(base, idx, e)

    def getitem(self, base, idx, node):
        if isinstance(base, SymMem):
            return base.load(idx)
        if isinstance(base, BV):
            if isinstance(idx, slice):
                idx = slice(*[None if x is None else int(x) for x in (idx.start, idx.stop, idx.step)])
            return base[idx]
        if isinstance(base, (list, tuple)):
            try:
                return base[idx if isinstance(idx, slice) else int(idx)]
            except IndexError:
                raise Raised('IndexError')
        if isinstance(base, dict):
            k = int(idx) if isinstance(idx, BV) else idx
            if k not in base:
                raise Raised('KeyError')
            return base[k]
        raise AnalysisError(f"subscript outside the abstract domain: {norm(node)}")

    def ev_List(self, e):
        return [self.ev(x) for x in e.elts]

    def ev_Lambda(self, e):
        return Closure(e, self.env)

    def ev_Dict(self, e):
        if any(k is None for k in e.keys):
            raise AnalysisError("dictionary unpacking outside the abstract domain")
        return {self._key(self.ev(k)): self.ev(v) for k, v in zip(e.keys, e.values)}

    @staticmethod
    def _key(k):
        if isinstance(k, BV):
            raise AnalysisError("bit-vector used as a dictionary key")
        try:
            hash(k)
        except TypeError:
            raise AnalysisError("unhashable dictionary key in the evaluated fragment")
        return k

    def ev_DictComp(self, e):
        if len(e.generators) != 1 or e.generators[0].is_async:
            raise AnalysisError(f"comprehension outside the abstract domain: {norm(e)[:60]}")
        g = e.generators[0]
        saved = dict(self.env)
        out = {}
        try:
            for v in self.iter_values(g.iter):
                self.store(g.target, v, e)
                if all(self.ev(c) for c in g.ifs):
                    out[self._key(self.ev(e.key))] = self.ev(e.value)      # later entries overwrite earlier ones
        finally:
            self.env.clear()
            self.env.update(saved)
        return out

    def ev_ListComp(self, e):
        if len(e.generators) != 1 or e.generators[0].is_async:
            raise AnalysisError(f"comprehension outside the abstract domain: {norm(e)[:60]}")
        g = e.generators[0]
        saved = dict(self.env)
        out = []
        try:
            for v in self.iter_values(g.iter):
                self.store(g.target, v, e)
                if all(self.ev(c) for c in g.ifs):
                    out.append(self.ev(e.elt))
        finally:
            self.env.clear()
            self.env.update(saved)
        return out

    def ev_BinOp(self, e):
        if isinstance(e.op, ast.Pow):
            l, r = self.ev(e.left), self.ev(e.right)
            if all(isinstance(x, int) and not isinstance(x, bool) for x in (l, r)) and 0 <= r <= 64:
                return l ** r
            raise AnalysisError(f"power outside the abstract domain: {norm(e)}")
        f = _BIN.get(type(e.op))
        if f is None:
            raise AnalysisError(f"binary operator outside the abstract domain: {norm(e)}")
        l, r = self.ev(e.left), self.ev(e.right)
        try:
            return f(l, r)
        except TypeError:
            raise AnalysisError(f"operands outside the abstract domain: {norm(e)}")

    def apply(self, fn, args):
        if isinstance(fn, Closure):
            node = fn.node
            a = node.args
            if a.vararg or a.kwarg or a.kwonlyargs or len(a.args) != len(args):
                raise AnalysisError(f"call signature outside the abstract domain: {norm(node)[:60]}")
            sub = type(self)(dict(fn.env), funcs=self.funcs, leaf=self.leaf)
            sub.steps = self.steps
            for p, v in zip(a.args, args):
                sub.env[p.arg] = v
            if isinstance(node, ast.Lambda):
                v = sub.ev(node.body)
            else:
                kind, v = sub.run(node.body)
                if kind == 'raise':
                    raise Raised(v)
            self.steps = sub.steps
            return v
        if callable(fn):
            return fn(*args)
        raise AnalysisError(f"call of a non-function value {fn!r}")

    def ev_Call(self, e):
        name = cnorm(e.func)
        if isinstance(e.func, ast.Attribute) and name not in self.funcs and e.func.attr not in self.METHODS:
            base = self.ev(e.func.value)
            if e.func.attr in getattr(base, 'ABSTRACT_METHODS', ()):
                if any(k.arg is None for k in e.keywords):
                    raise AnalysisError(f"keyword call outside the abstract domain: {norm(e)}")
                return getattr(base, e.func.attr)(*[self.ev(a) for a in e.args], **{k.arg: self.ev(k.value) for k in e.keywords})
            raise AnalysisError(f"method call outside the abstract domain: {norm(e)}")
        if e.keywords:
            raise AnalysisError(f"keyword call outside the abstract domain: {norm(e)}")
        if name in self.funcs:
            return self.apply(self.funcs[name], [self.ev(a) for a in e.args])
        if isinstance(e.func, ast.Attribute) and e.func.attr in self.METHODS:
            base = self.ev(e.func.value)
            if isinstance(base, BV):
                return getattr(base, e.func.attr)(*[self.ev(a) for a in e.args])
            raise AnalysisError(f"method call outside the abstract domain: {norm(e)}")
        if isinstance(e.func, ast.Name) and e.func.id in self.env:
            return self.apply(self.env[e.func.id], [self.ev(a) for a in e.args])
        if isinstance(e.func, (ast.Lambda, ast.Subscript)):
            return self.apply(self.ev(e.func), [self.ev(a) for a in e.args])
        raise AnalysisError(f"call outside the abstract domain: {norm(e)}")

    # -- statements
    def run(self, stmts):
        try:
            self.block(stmts)
        except Returned as r:
            return ('return', r.value)
        except Raised as r:
            return ('raise', r.what)
        except (_Break, _Continue):
            raise AnalysisError("break / continue outside a loop in the evaluated fragment")
        return ('fall', None)

    def tick(self):
        self.steps += 1
        if self.steps > self.MAX_STEPS:
            raise Raised('does not terminate within the step budget')

    def store(self, target, value, stmt):
        if isinstance(target, ast.Name):
            self.env[target.id] = value
        elif isinstance(target, (ast.Tuple, ast.List)):
            vals = list(value)
            if len(vals) != len(target.elts):
                raise Raised('ValueError: unpack')
            for t, v in zip(target.elts, vals):
                self.store(t, v, stmt)
        elif isinstance(target, ast.Subscript):
            base = self.ev(target.value)
            idx = self.ev(target.slice)
            if isinstance(base, SymMem):
                base.store(idx, value)
            elif isinstance(base, list) and not isinstance(idx, slice):
                try:
                    base[int(idx)] = value
                except IndexError:
                    raise Raised('IndexError')
            else:
                self.store_other(target, value, stmt)
        else:
            self.store_other(target, value, stmt)

    def store_other(self, target, value, stmt):
        raise AnalysisError(f"store outside the abstract domain: {norm(stmt)[:80]}")

    def aug(self, st):
        """augmented assignment to a plain local name (others: override)"""
        if isinstance(st.target, (ast.Name, ast.Subscript)) and type(st.op) in _BIN:
            cur = self.ev(_as_load(st.target))
            try:
                self.store(st.target, _BIN[type(st.op)](cur, self.ev(st.value)), st)
            except TypeError:
                raise AnalysisError(f"operands outside the abstract domain: {norm(st)}")
        else:
            raise AnalysisError(f"statement outside the abstract domain: {norm(st)[:80]}")

    def iter_values(self, it):
        if isinstance(it, ast.Call) and cnorm(it.func) == 'range' and not it.keywords:
            args = [self.ev(a) for a in it.args]
            if not all(isinstance(a, int) and not isinstance(a, bool) for a in args) or not 1 <= len(args) <= 3:
                raise AnalysisError(f"loop range outside the abstract domain: {norm(it)}")
            try:
                return list(range(*args))
            except ValueError:
                raise Raised('ValueError: range step 0')
        if isinstance(it, ast.Call) and cnorm(it.func) == 'reversed' and len(it.args) == 1 and not it.keywords:
            return list(reversed(self.iter_values(it.args[0])))
        if isinstance(it, ast.Call) and cnorm(it.func) == 'enumerate' and 1 <= len(it.args) <= 2 and not it.keywords:
            start = self.ev(it.args[1]) if len(it.args) == 2 else 0
            return [(start + k, v) for k, v in enumerate(self.iter_values(it.args[0]))]
        if isinstance(it, ast.Call) and cnorm(it.func) == 'zip' and it.args and not it.keywords:
            return [tuple(x) for x in zip(*[self.iter_values(a) for a in it.args])]
        v = self.ev(it)
        if isinstance(v, (list, tuple)):
            return list(v)
        if isinstance(v, dict):
            return list(v)
        raise AnalysisError(f"loop iterable outside the abstract domain: {norm(it)}")

    def block(self, stmts):
        for st in stmts:
            self.tick()
            if isinstance(st, ast.If):
                self.block(st.body if self.ev(st.test) else st.orelse)
            elif isinstance(st, ast.While):
                if st.orelse:
                    raise AnalysisError("while-else outside the abstract domain")
                while self.ev(st.test):
                    self.tick()
                    try:
                        self.block(st.body)
                    except _Continue:
                        continue
                    except _Break:
                        break
            elif isinstance(st, ast.For):
                if st.orelse:
                    raise AnalysisError("for-else outside the abstract domain")
                for v in self.iter_values(st.iter):
                    self.tick()
                    self.store(st.target, v, st)
                    try:
                        self.block(st.body)
                    except _Continue:
                        continue
                    except _Break:
                        break
            elif isinstance(st, ast.Return):
                raise Returned(None if st.value is None else self.ev(st.value))
            elif isinstance(st, ast.Raise):
                raise Raised(norm(st.exc.func) if isinstance(st.exc, ast.Call) else norm(st.exc))
            elif isinstance(st, ast.Assert):
                if not self.ev(st.test):
                    raise Raised('AssertionError')
            elif isinstance(st, ast.Assign):
                v = self.ev(st.value)
                for t in st.targets:
                    self.store(t, v, st)
            elif isinstance(st, ast.AugAssign):
                self.aug(st)
            elif isinstance(st, ast.Pass):
                pass
            elif isinstance(st, ast.Continue):
                raise _Continue()
            elif isinstance(st, ast.Break):
                raise _Break()
            elif isinstance(st, ast.Expr) and isinstance(st.value, ast.Constant):
                pass
            elif isinstance(st, ast.Expr) and isinstance(st.value, ast.Call):
                self.ev(st.value)
            else:
                raise AnalysisError(f"statement outside the abstract domain: {norm(st)[:80]}")


def _as_load(t):
    """the target expression in Load context (children shared; never deep-copies the tree through parent links)"""
    if isinstance(t, ast.Name):
        n = ast.Name(id=t.id, ctx=ast.Load())
    elif isinstance(t, ast.Subscript):
        n = ast.Subscript(value=t.value, slice=t.slice, ctx=ast.Load())
    elif isinstance(t, ast.Attribute):
        n = ast.Attribute(value=t.value, attr=t.attr, ctx=ast.Load())
    else:
        raise AnalysisError(f"augmented assignment target outside the abstract domain: {norm(t)}")
    return ast.copy_location(n, t)


def copy_expr(e, mapping=None):
    """structural copy of an expression (fields only -- parent links are not followed), with Load-context Names replaced per
    `mapping` name -> expression"""
    if isinstance(e, ast.Name) and mapping and e.id in mapping and isinstance(e.ctx, ast.Load):
        return copy_expr(mapping[e.id])
    if isinstance(e, ast.AST):
        kw = {}
        for f in e._fields:
            v = getattr(e, f, None)
            if isinstance(v, list):
                kw[f] = [copy_expr(x, mapping) for x in v]
            else:
                kw[f] = copy_expr(v, mapping)
        n = type(e)(**kw)
        return ast.copy_location(n, e) if hasattr(e, 'lineno') else n
    return e


# ---------------------------------------------------------------------------
def strip_doc(body):
    return [s for s in body if not (isinstance(s, ast.Expr) and isinstance(s.value, ast.Constant))]


def decorators(func):
    out = []
    for d in func.decorator_list:
        out.append(norm(d.func) if isinstance(d, ast.Call) else norm(d))
    return out
