"""MaskDom: range classification of integer expressions inside PythonBits.Bits.

Classifies an expression as InRange(W) -- provably in [0, 2^W) -- for a
symbolic width term W, Bool01, or a reason why it cannot be proved.  Width
terms: 'N' (the object's own width, self._nbits), '1', 'S' (stop - start of
the slice being accessed).  The transfer rules are the arithmetic facts listed
in DESIGN.md section 2; the invariant 0 <= _uint,_next < 2^_nbits is assumed for
reads and proved for every write (induction over all writers).
"""
import ast

from .astutil import norm, guards_of, reaching_value, parent, stmt_of, enclosing_func
from .errors import AnalysisError

GROWING = (ast.Add, ast.Sub, ast.Mult, ast.LShift, ast.Pow)


class Cannot(Exception):
    """cannot prove in range; .definite = the domain *knows* the expression can leave the range"""
    def __init__(self, why, definite=True):
        super().__init__(why)
        self.why, self.definite = why, definite


def self_name(func):
    return func.args.args[0].arg if func.args.args else 'self'


def width_term(e, at, func, _depth=0):
    """symbolic width denoted by expression e at program point `at` in `func`: 'N', '1', 'S:<start>:<stop>' or None"""
    if _depth > 6:
        return None
    me = self_name(func)
    if isinstance(e, ast.Constant) and e.value == 1 and not isinstance(e.value, bool):
        return '1'
    if isinstance(e, ast.Attribute) and isinstance(e.value, ast.Name) and e.value.id == me and e.attr in ('_nbits', 'nbits'):
        return 'N'
    if isinstance(e, ast.BinOp) and isinstance(e.op, ast.Sub) and isinstance(e.left, ast.Name) and isinstance(e.right, ast.Name):
        return f"S:{e.right.id}:{e.left.id}"
    if isinstance(e, ast.Name):
        # `self._nbits = <name>` in the same function makes the name the object's width (constructor)
        for st in func.body:
            if isinstance(st, ast.Assign) and len(st.targets) == 1 and norm(st.targets[0]) == f'{me}._nbits' \
                    and isinstance(st.value, ast.Name) and st.value.id == e.id:
                return 'N'
        rv = reaching_value(e.id, at)
        if rv is not None:
            if isinstance(rv, ast.Call) and norm(rv.func) == 'int' and len(rv.args) == 1:
                rv = rv.args[0]
                if isinstance(rv, ast.Name) and rv.id == e.id:
                    return None
            return width_term(rv, at, func, _depth + 1)
    return None


def mask_width(e, at, func):
    """if e denotes the all-ones mask of some width term, return that term, else None.
    Recognised: _upper[w], a name whose reaching definition is _upper[w], (1 << w) - 1, literal 1."""
    if isinstance(e, ast.Subscript) and isinstance(e.value, ast.Name) and e.value.id == '_upper':
        return width_term(e.slice, at, func)
    if isinstance(e, ast.Name):
        rv = reaching_value(e.id, at)
        if rv is not None:
            return mask_width(rv, at, func)
        return None
    if isinstance(e, ast.BinOp) and isinstance(e.op, ast.Sub) and isinstance(e.right, ast.Constant) and e.right.value == 1 \
            and isinstance(e.left, ast.BinOp) and isinstance(e.left.op, ast.LShift) \
            and isinstance(e.left.left, ast.Constant) and e.left.left.value == 1:
        return width_term(e.left.right, at, func)
    if isinstance(e, ast.Constant) and e.value == 1 and not isinstance(e.value, bool):
        return '1'
    return None


def _cmp_eq_guard(g, a_pred, b_pred):
    """guard g establishes A == B for expressions matching a_pred / b_pred"""
    t = g.test
    if not (isinstance(t, ast.Compare) and len(t.ops) == 1):
        return False
    l, r = t.left, t.comparators[0]
    if not ((a_pred(l) and b_pred(r)) or (a_pred(r) and b_pred(l))):
        return False
    if isinstance(t.ops[0], ast.NotEq):
        return g.polarity is False
    if isinstance(t.ops[0], ast.Eq):
        return g.polarity is True
    return False


class BitsDom:
    def __init__(self, func, int_range_names=None):
        self.func = func
        self.me = self_name(func)
        # names proved (by the guard rule) to hold an int in [0, up(N)] at use sites: name -> width term,
        # established per use site by `operand_width`
        self.evals = 0

    # -- what width is an *operand object's* value known to have here?
    def operand_width(self, name, at):
        """width term W such that `<name>._uint` / `<name>.to_bits()._uint` is InRange(W) at `at`:
        established by a dominating guard  <name>.nbits == <width expr>."""
        for g in guards_of(at):
            def is_nb(x):
                return isinstance(x, ast.Attribute) and isinstance(x.value, ast.Name) and x.value.id == name \
                    and x.attr in ('nbits', '_nbits')
            w = []
            def is_w(x):
                t = width_term(x, at, self.func)
                if t is not None:
                    w.append(t)
                    return True
                return False
            if _cmp_eq_guard(g, is_nb, is_w):
                return w[-1]
        # the same fact spelled as two exits: `if W < x.nbits: raise ... elif W > x.nbits: raise ...`
        rel = {}
        for g in guards_of(at):
            t = g.test
            if g.polarity is not False or not (isinstance(t, ast.Compare) and len(t.ops) == 1 and isinstance(t.ops[0], (ast.Lt, ast.Gt))):
                continue
            def is_nb2(x):
                return isinstance(x, ast.Attribute) and isinstance(x.value, ast.Name) and x.value.id == name and x.attr in ('nbits', '_nbits')
            l, r_ = t.left, t.comparators[0]
            for nb, other, flip in ((l, r_, False), (r_, l, True)):
                if is_nb2(nb):
                    wt = width_term(other, at, self.func)
                    if wt is not None:
                        less = isinstance(t.ops[0], ast.Lt) != flip        # "x.nbits < W" excluded  vs  "x.nbits > W" excluded
                        rel.setdefault(wt, set()).add('lt' if less else 'gt')
        for wt, seen in rel.items():
            if seen == {'lt', 'gt'}:
                return wt
        return None

    def int_name_width(self, name, at):
        """width term W such that the plain integer `name` is InRange(W) at `at`: dominating guards
        (name < 0 or name > mask(W)) -> exit   /  lo..up form for signed-accepting sites is NOT in range."""
        for g in guards_of(at):
            if g.kind not in ('exit', 'if'):
                continue
            t = g.test
            # not (name < 0 or name > up)
            if g.polarity is False and isinstance(t, ast.BoolOp) and isinstance(t.op, ast.Or) and len(t.values) == 2:
                lo_ok = up_w = None
                for v in t.values:
                    if isinstance(v, ast.Compare) and len(v.ops) == 1 and isinstance(v.left, ast.Name) and v.left.id == name:
                        c = v.comparators[0]
                        if isinstance(v.ops[0], ast.Lt) and isinstance(c, ast.Constant) and c.value == 0:
                            lo_ok = True
                        if isinstance(v.ops[0], ast.Gt):
                            up_w = mask_width(c, at, self.func)
                if lo_ok and up_w:
                    return up_w
            # 0 <= name <= up
            if g.polarity is True and isinstance(t, ast.Compare) and len(t.ops) == 2 \
                    and isinstance(t.left, ast.Constant) and t.left.value == 0 \
                    and all(isinstance(o, ast.LtE) for o in t.ops) \
                    and isinstance(t.comparators[0], ast.Name) and t.comparators[0].id == name:
                w = mask_width(t.comparators[1], at, self.func)
                if w:
                    return w
        return None

    # -- classification
    def in_range(self, e, W, at):
        """prove e in [0, 2^W); raise Cannot otherwise"""
        self.evals += 1
        me = self.me
        if isinstance(e, ast.Constant):
            if e.value in (0, 1, True, False):
                return True
            raise Cannot(f"literal {e.value!r} is not known to fit every width")
        if isinstance(e, ast.Compare):
            return True                                   # Bool01 fits every width >= 1
        if isinstance(e, ast.UnaryOp) and isinstance(e.op, ast.Not):
            return True
        if isinstance(e, ast.BoolOp) and all(isinstance(v, ast.Compare) or
                                             (isinstance(v, ast.UnaryOp) and isinstance(v.op, ast.Not)) for v in e.values):
            return True                                   # and/or of comparisons is a bool
        if isinstance(e, ast.Call) and norm(e.func) in ('int', 'bool') and len(e.args) == 1:
            return self.in_range(e.args[0], W, at)
        if isinstance(e, ast.Attribute) and e.attr in ('_uint', '_next'):
            b = e.value
            if isinstance(b, ast.Name) and b.id == me:
                if W == 'N':
                    return True                           # the invariant (induction hypothesis)
                raise Cannot(f"{norm(e)} has the object's width, not {W}")
            if isinstance(b, ast.Name):
                w = self.operand_width(b.id, at)
                if w == W:
                    return True
                raise Cannot(f"no dominating guard establishes {b.id}.nbits == width {W} before {norm(e)} is used")
            if isinstance(b, ast.Call) and isinstance(b.func, ast.Attribute) and b.func.attr == 'to_bits' \
                    and isinstance(b.func.value, ast.Name):
                w = self.operand_width(b.func.value.id, at)
                if w == W:
                    return True
                raise Cannot(f"no dominating guard establishes {b.func.value.id}.nbits == width {W} before {norm(e)}")
            if isinstance(b, ast.Call) and isinstance(b.func, ast.Attribute) and isinstance(b.func.value, ast.Name) and b.func.value.id == me \
                    and b.func.attr in ('__add__', '__sub__', '__mul__', '__and__', '__or__', '__xor__', '__lshift__', '__rshift__', '__invert__',
                                        '__floordiv__', '__mod__', '__radd__', '__rsub__', '__rand__', '__ror__', '__rxor__', 'clone'):
                # the result of one of the object's own same-width operators: a valid Bits of width N (each of those methods is
                # itself subject to the range rule, so this is the induction hypothesis one call deeper)
                if W == 'N':
                    return True
                raise Cannot(f"{norm(e)} has the object's width, not {W}")
            raise Cannot(f"cannot resolve the owner of {norm(e)}", definite=False)
        if isinstance(e, ast.Name):
            rv = reaching_value(e.id, at)
            w = self.int_name_width(e.id, at)
            if w == W:
                return True
            if rv is not None and not (isinstance(rv, ast.Call) and norm(rv.func) == 'int' and
                                       len(rv.args) == 1 and norm(rv.args[0]) == e.id):
                # follow a local alias (e.g. sv = int(self._uint), uint = other._uint); facts hold at the def site
                return self.in_range(rv, W, e if False else at)
            raise Cannot(f"integer {e.id} is not range-checked against width {W} on this path")
        if isinstance(e, ast.BinOp):
            op = e.op
            if isinstance(op, ast.BitAnd):
                for side, oth in ((e.left, e.right), (e.right, e.left)):
                    if mask_width(side, at, self.func) == W:
                        return True
                    if W == 'N' and mask_width(side, at, self.func) is not None and False:
                        pass
                errs = []
                for side in (e.left, e.right):
                    try:
                        return self.in_range(side, W, at)        # a & b in [0, a] for a >= 0, any b
                    except Cannot as c:
                        errs.append(c.why)
                raise Cannot(f"neither operand of {norm(e)} is in range for width {W}: " + ' / '.join(errs))
            if isinstance(op, (ast.BitOr, ast.BitXor)):
                self.in_range(e.left, W, at)
                self.in_range(e.right, W, at)
                return True
            if isinstance(op, ast.RShift):
                self.in_range(e.left, W, at)
                self._nonneg(e.right, at)
                return True
            if isinstance(op, (ast.FloorDiv, ast.Mod)):
                if isinstance(op, ast.Mod):
                    # a % (1 << W)
                    r = e.right
                    if isinstance(r, ast.BinOp) and isinstance(r.op, ast.LShift) and isinstance(r.left, ast.Constant) \
                            and r.left.value == 1 and width_term(r.right, at, self.func) == W:
                        return True
                self.in_range(e.left, W, at)
                self._nonneg(e.right, at)
                return True
            if isinstance(op, ast.LShift):
                # (x in range S) << start, with S = stop - start and stop <= nbits   => in range N
                # (x in range 1) << i,     with 0 <= i < nbits                       => in range N
                if W == 'N' and isinstance(e.right, ast.Name):
                    amt = e.right.id
                    for cand in self._slice_terms(at):
                        if cand.split(':')[1] == amt:
                            try:
                                self.in_range(e.left, cand, at)
                                if self._slice_bounded(cand, at):
                                    return True
                            except Cannot:
                                pass
                    try:
                        self.in_range(e.left, '1', at)
                        if self._index_bounded(amt, at):
                            return True
                    except Cannot:
                        pass
                raise Cannot(f"left shift {norm(e)} is not masked to width {W}")
            if isinstance(op, GROWING):
                raise Cannot(f"{norm(e)} can leave [0, 2^{W}) and is not masked with the width-{W} mask")
        if isinstance(e, ast.UnaryOp) and isinstance(e.op, (ast.Invert, ast.USub)):
            raise Cannot(f"{norm(e)} is negative for non-negative operands and is not masked")
        raise Cannot(f"expression outside the range domain: {norm(e)}", definite=False)

    def _nonneg(self, e, at):
        for W in ('N', '1') + tuple(self._slice_terms(at)):
            try:
                return self.in_range(e, W, at)
            except Cannot:
                continue
        if isinstance(e, ast.Name):
            # any non-negative guard
            for g in guards_of(at):
                t = g.test
                if isinstance(t, ast.Compare) and norm(t.left) == '0' and len(t.ops) >= 1 and g.polarity \
                        and isinstance(t.ops[0], ast.LtE) and norm(t.comparators[0]) == e.id:
                    return True
        raise Cannot(f"cannot prove {norm(e)} >= 0")

    def _slice_terms(self, at):
        out = []
        for n in ast.walk(self.func):
            if isinstance(n, ast.BinOp) and isinstance(n.op, ast.Sub) and isinstance(n.left, ast.Name) \
                    and isinstance(n.right, ast.Name):
                t = f"S:{n.right.id}:{n.left.id}"
                if t not in out:
                    out.append(t)
        return out

    def _slice_bounded(self, term, at):
        """a dominating assert/guard gives 0 <= start < stop <= self._nbits for the slice term"""
        _, start, stop = term.split(':')
        for g in guards_of(at) + self._try_asserts(at):
            t = g.test
            if g.polarity and isinstance(t, ast.Compare):
                seq = [norm(t.left)] + [norm(c) for c in t.comparators]
                ops = [type(o) for o in t.ops]
                if not all(o in (ast.Lt, ast.LtE) for o in ops):
                    continue
                if stop in seq:
                    i = seq.index(stop)
                    if i + 1 < len(seq) and ops[i] in (ast.LtE,) and width_term(t.comparators[i], at, self.func) == 'N':
                        if start in seq and seq.index(start) < i and '0' in seq[:seq.index(start)]:
                            return True
        return False

    def _index_bounded(self, name, at):
        """dominating guard: (name >= nbits or name < 0) -> exit   or  assert 0 <= name < nbits"""
        for g in guards_of(at):
            t = g.test
            if g.polarity is False and isinstance(t, ast.BoolOp) and isinstance(t.op, ast.Or):
                hi = lo = False
                for v in t.values:
                    if isinstance(v, ast.Compare) and len(v.ops) == 1 and norm(v.left) == name:
                        if isinstance(v.ops[0], ast.GtE) and width_term(v.comparators[0], at, self.func) == 'N':
                            hi = True
                        if isinstance(v.ops[0], ast.Lt) and norm(v.comparators[0]) == '0':
                            lo = True
                if hi and lo:
                    return True
            if g.polarity and isinstance(t, ast.Compare) and len(t.ops) == 2 and norm(t.left) == '0' \
                    and isinstance(t.ops[0], ast.LtE) and norm(t.comparators[0]) == name \
                    and isinstance(t.ops[1], ast.Lt) and width_term(t.comparators[1], at, self.func) == 'N':
                return True
        return False

    def _try_asserts(self, at):
        """asserts inside an earlier sibling try-block whose handler always exits: they hold afterwards"""
        from .astutil import preceding_stmts, always_exits, Guard
        out = []
        for st in preceding_stmts(at):
            if isinstance(st, ast.Try) and st.handlers and all(always_exits(h.body) for h in st.handlers):
                for s2 in st.body:
                    if isinstance(s2, ast.Assert):
                        out.append(Guard(s2.test, True, 'assert', s2))
        return out
